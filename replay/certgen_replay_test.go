package certgen

// Replay drivers for lib/certgen (injected with go test -overlay; nothing is written to /repo).

import (
	"crypto/rsa"
	"crypto/x509"
	"crypto/x509/pkix"
	"math/big"
	"encoding/asn1"
	"encoding/json"
	"os"
	"strconv"
	"testing"
	"time"

	"golang.org/x/crypto/ssh"
)

func verifReplayInputs(t *testing.T) map[string]string {
	m := map[string]string{}
	if err := json.Unmarshal([]byte(os.Getenv("VERIF_REPLAY_INPUTS")), &m); err != nil {
		t.Fatalf("bad VERIF_REPLAY_INPUTS: %v", err)
	}
	return m
}

func TestVerifReplayDecodeIPV4(t *testing.T) {
	in := verifReplayInputs(t)
	bl, _ := strconv.Atoi(in["bitlength"])
	n, _ := strconv.Atoi(in["nbytes"])
	if n < (bl+7)/8 {
		n = (bl + 7) / 8
	}
	if n > 1<<16 || n < 0 {
		t.Logf("REPLAY-NOT-REPRODUCED: model needs %d bytes", n)
		return
	}
	bs := asn1.BitString{Bytes: make([]byte, n), BitLength: bl}
	for i := range bs.Bytes {
		bs.Bytes[i] = 0xff
	}
	func() {
		defer func() {
			if r := recover(); r != nil {
				t.Logf("BitLength=%d len(Bytes)=%d -> panic: %v", bl, n, r)
				t.Logf("REPLAY-CONFIRMED: malformed address extension panics the decoder")
			}
		}()
		nb, err := decodeIPV4AddressChoice(bs)
		ones, bits := nb.Mask.Size()
		t.Logf("BitLength=%d len(Bytes)=%d -> net=%v ones=%d bits=%d err=%v", bl, n, nb, ones, bits, err)
		if err == nil && (bl > 32 || bl < 0) {
			t.Logf("REPLAY-CONFIRMED: oversized prefix length accepted")
			return
		}
		if err != nil && bl >= 0 && bl <= 32 {
			t.Logf("REPLAY-CONFIRMED: well-formed prefix refused")
			return
		}
		if err == nil {
			// the contract's functional clauses: octet j is the encoded octet while 8*j < BitLength, else 0;
			// the mask has BitLength ones out of 32 (the model fixes BitLength; the octets are all 0xff here)
			ip4 := nb.IP.To4()
			for j := 0; j < 4 && ip4 != nil; j++ {
				want := byte(0)
				if 8*j < bl {
					want = 0xff
				}
				if ip4[j] != want {
					t.Logf("REPLAY-CONFIRMED: octet %d decodes to %#x, the encoded block says %#x", j, ip4[j], want)
					return
				}
			}
			if ip4 == nil || ones != bl || bits != 32 {
				t.Logf("REPLAY-CONFIRMED: decoded mask /%d of %d for an encoded prefix length %d", ones, bits, bl)
				return
			}
		}
		t.Logf("REPLAY-NOT-REPRODUCED")
	}()
}

// C03: the validity window of an SSH certificate for an arbitrary requested duration.
func TestVerifReplayGenSSHCertWindow(t *testing.T) {
	in := verifReplayInputs(t)
	d, err := strconv.ParseInt(in["duration_ns"], 10, 64)
	if err != nil {
		t.Fatalf("bad duration")
	}
	signer, err := ssh.ParsePrivateKey([]byte(testSignerPrivateKey))
	if err != nil {
		t.Fatal(err)
	}
	before := uint64(time.Now().Unix())
	_, cert, err := GenSSHCertFileString("user", testUserPublicKey, signer, "host", time.Duration(d), nil)
	after := uint64(time.Now().Unix())
	t.Logf("duration=%dns -> ValidAfter=%d ValidBefore=%d err=%v", d, cert.ValidAfter, cert.ValidBefore, err)
	if err != nil {
		t.Logf("REPLAY-NOT-REPRODUCED (refused)")
		return
	}
	maxSecs := uint64(0)
	if d > 0 {
		maxSecs = uint64(d/1000000000) + 1
	}
	if cert.ValidBefore < cert.ValidAfter || cert.ValidBefore-cert.ValidAfter > maxSecs || cert.ValidAfter < before || cert.ValidAfter > after {
		t.Logf("REPLAY-CONFIRMED: certificate window [%d,%d] exceeds the requested %d s or is wrapped", cert.ValidAfter, cert.ValidBefore, maxSecs)
	} else {
		t.Logf("REPLAY-NOT-REPRODUCED")
	}
}

// C10: RSA modulus size / exponent accepted by ValidatePublicKeyStrength.
func TestVerifReplayKeyStrengthRSA(t *testing.T) {
	in := verifReplayInputs(t)
	bits, _ := strconv.Atoi(in["bitlen"])
	e, _ := strconv.Atoi(in["e"])
	if bits < 2 || bits > 1<<20 {
		t.Logf("REPLAY-NOT-REPRODUCED: unusable modulus size %d", bits)
		return
	}
	n := new(big.Int).Lsh(big.NewInt(1), uint(bits-1))
	n.Add(n, big.NewInt(1))
	key := &rsa.PublicKey{N: n, E: e}
	ok, err := ValidatePublicKeyStrength(key)
	t.Logf("RSA modulus of %d bits, e=%d -> accepted=%v err=%v", n.BitLen(), e, ok, err)
	if ok && (n.BitLen() < 2048 || e < 65537) {
		t.Logf("REPLAY-CONFIRMED: a key weaker than RSA-2048/e>=65537 is accepted")
	} else {
		t.Logf("REPLAY-NOT-REPRODUCED")
	}
}

// C10 / C11: the two readers of the RFC 3779 extension on certificates whose extension is well-formed ASN.1 but
// malformed as an address block (the shapes of a no-panic model: a family identifier of 0..3 octets, blocks whose
// bit length disagrees with their octets). A panic in either reader confirms.
func TestVerifReplayAddressExtensionNoPanic(t *testing.T) {
	confirmed := false
	for famLen := 0; famLen <= 3; famLen++ {
		for _, blk := range []asn1.BitString{
			{Bytes: []byte{10}, BitLength: 8},
			{Bytes: []byte{}, BitLength: 0},
			{Bytes: []byte{10, 0, 0, 0, 1}, BitLength: 40},
		} {
			fam := []byte{0, 1, 1}[:famLen]
			list := []IpAdressFamily{{AddressFamily: fam, Addresses: []asn1.BitString{blk}}}
			der, err := asn1.Marshal(list)
			if err != nil {
				t.Logf("family of %d octets: cannot be marshalled: %v", famLen, err)
				continue
			}
			cert := &x509.Certificate{Extensions: []pkix.Extension{{Id: oidIPAddressDelegation, Value: der}}}
			for name, call := range map[string]func(){
				"VerifyIPRestrictedX509CertIP":      func() { VerifyIPRestrictedX509CertIP(cert, "10.0.0.1:1234") },
				"ExtractIPNetsFromIPRestrictedX509": func() { ExtractIPNetsFromIPRestrictedX509(cert) },
			} {
				func() {
					defer func() {
						if r := recover(); r != nil {
							t.Logf("%s: AddressFamily of %d octets, block of %d bits in %d octets -> panic: %v", name, famLen, blk.BitLength, len(blk.Bytes), r)
							confirmed = true
						}
					}()
					call()
				}()
			}
		}
	}
	if confirmed {
		t.Logf("REPLAY-CONFIRMED: a malformed address extension panics the reader")
	} else {
		t.Logf("REPLAY-NOT-REPRODUCED")
	}
}
