package main

// Replay driver for C10's status clause on the two automation paths: a key that cannot be parsed, or is too weak,
// is the client's error (4xx), on the admin-requested path and on the certificate-authenticated refresh path.

import (
	"crypto/rand"
	"crypto/rsa"
	"crypto/tls"
	"crypto/x509"
	"encoding/base64"
	"encoding/pem"
	"net"
	"net/http"
	"net/http/httptest"
	"net/url"
	"os"
	"strings"
	"testing"
	"time"

	"github.com/Cloud-Foundations/keymaster/lib/instrumentedwriter"
)

func TestVerifReplayAutomationBadKeyStatus(t *testing.T) {
	state, passwdFile, err := setupValidRuntimeStateSigner(t)
	if err != nil {
		t.Fatal(err)
	}
	defer os.Remove(passwdFile.Name())
	state.Config.Base.AutomationUsers = append(state.Config.Base.AutomationUsers, "role1")
	state.Config.Base.AutomationAdmins = append(state.Config.Base.AutomationAdmins, "admin1")
	state.Config.Base.AllowedAuthBackendsForWebUI = []string{"password"}
	goodPub, err := getPubKeyFromPem(testUserPEMPublicKey)
	if err != nil {
		t.Fatal(err)
	}
	_, rrcert, err := state.withParamsGenerateRoleRequestingCert(&roleRequestingCertGenParams{
		Role: "role1", Duration: time.Hour, UserPub: goodPub,
		RequestorNetblocks: []net.IPNet{{IP: net.ParseIP("127.0.0.0"), Mask: net.CIDRMask(8, 32)}},
	})
	if err != nil {
		t.Fatal(err)
	}
	goodBlock, _ := pem.Decode([]byte(testUserPEMPublicKey))
	weakKey, _ := rsa.GenerateKey(rand.Reader, 1024)
	weakDER, _ := x509.MarshalPKIXPublicKey(&weakKey.PublicKey)
	cookieVal, err := state.setNewAuthCookie(nil, "admin1", AuthTypePassword)
	if err != nil {
		t.Fatal(err)
	}
	send := func(path string, der []byte) int {
		form := url.Values{}
		form.Add("pubkey", base64.RawURLEncoding.EncodeToString(der))
		handler := state.refreshRoleRequestingCertGenHandler
		if path == getRoleRequestingPath {
			handler = state.roleRequetingCertGenHandler
			form.Add("identity", "role1")
			form.Add("requestor_netblock", "127.0.0.1/32")
			form.Add("target_netblock", "192.168.0.174/32")
		}
		req, _ := http.NewRequest("POST", path, strings.NewReader(form.Encode()))
		req.Header.Add("Content-Type", "application/x-www-form-urlencoded")
		req.RemoteAddr = "127.0.0.1:12345"
		if path == getRoleRequestingPath {
			req.AddCookie(&http.Cookie{Name: authCookieName, Value: cookieVal})
		} else {
			req.TLS = &tls.ConnectionState{VerifiedChains: [][]*x509.Certificate{{rrcert}}, PeerCertificates: []*x509.Certificate{rrcert}}
		}
		rr := httptest.NewRecorder()
		instrumentedwriter.NewLoggingHandler(http.HandlerFunc(handler), httpLogger{}).ServeHTTP(rr, req)
		return rr.Code
	}
	confirmed := false
	for _, path := range []string{getRoleRequestingPath, refreshRoleRequestingCertPath} {
		if c := send(path, goodBlock.Bytes); c != 200 {
			t.Logf("%s: a good key is answered %d: the set-up does not reach the issuing code", path, c)
			continue
		}
		for name, der := range map[string][]byte{"truncated DER": goodBlock.Bytes[:len(goodBlock.Bytes)-7], "junk": []byte("hello"), "1024-bit RSA": weakDER} {
			c := send(path, der)
			t.Logf("%s with %s -> status %d", path, name, c)
			if c < 400 || c > 499 {
				t.Logf("REPLAY-CONFIRMED: %s answers an unusable key (%s) with %d, not a client error", path, name, c)
				confirmed = true
			}
		}
	}
	if !confirmed {
		t.Logf("REPLAY-NOT-REPRODUCED")
	}
}
