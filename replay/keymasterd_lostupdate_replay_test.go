package main

// Replay driver for C16 "an acknowledged disable or delete of a second-factor token is not undone by a concurrent
// request on the same user". History of the model: request A (a TOTP log-in, which records the accepted period in the
// profile) has loaded the user's profile when request B (the user disables a lost U2F token) is served completely
// and acknowledged; A then writes its copy of the profile back. Either order of serving the two one after the other
// leaves the token disabled.

import (
	"bytes"
	"net/http"
	"net/http/httptest"
	"net/url"
	"os"
	"strconv"
	"strings"
	"sync"
	"testing"
	"time"

	"github.com/Cloud-Foundations/golib/pkg/log"
	"github.com/Cloud-Foundations/keymaster/lib/instrumentedwriter"
	"github.com/Cloud-Foundations/keymaster/lib/webapi/v0/proto"
	"github.com/pquerna/otp/totp"
)

// verifYieldLogger stops the first goroutine that logs a message whose format starts with prefix, while armed.
type verifYieldLogger struct {
	log.DebugLogger
	mu      sync.Mutex
	armed   bool
	prefix  string
	reached chan struct{}
	release chan struct{}
}

func (l *verifYieldLogger) Debugf(level uint8, format string, v ...interface{}) {
	l.mu.Lock()
	hit := l.armed && strings.HasPrefix(format, l.prefix)
	if hit {
		l.armed = false
	}
	l.mu.Unlock()
	if hit {
		close(l.reached)
		<-l.release
	}
	l.DebugLogger.Debugf(level, format, v...)
}

func TestVerifReplayProfileLostUpdate(t *testing.T) {
	state, passwdFile, err := setupValidRuntimeStateSigner(t)
	if err != nil {
		t.Fatal(err)
	}
	defer os.Remove(passwdFile.Name())
	tmpdir, err := os.MkdirTemp("", "verif-lostupdate-")
	if err != nil {
		t.Fatal(err)
	}
	defer os.RemoveAll(tmpdir)
	state.Config.Base.DataDirectory = tmpdir
	if err := initDB(state); err != nil {
		t.Fatal(err)
	}
	state.dbDone <- struct{}{}
	state.Config.Base.AllowedAuthBackendsForWebUI = []string{proto.AuthTypePassword, proto.AuthTypeTOTP}
	state.signerPublicKeyToKeymasterKeys()
	authCookie, totpSecret, err := setupTestStateWithTOTPSecret(t, state, AuthTypePassword)
	if err != nil {
		t.Fatal(err)
	}
	const user = "username"
	const tokenIndex = int64(4242)
	profile, _, _, err := state.LoadUserProfile(user)
	if err != nil {
		t.Fatal(err)
	}
	profile.U2fAuthData[tokenIndex] = &u2fAuthData{Enabled: true, Name: "lost token", CreatedAt: time.Now()}
	if err := state.SaveUserProfile(user, profile); err != nil {
		t.Fatal(err)
	}
	// request A: TOTP log-in, held right after it has loaded the profile
	yl := &verifYieldLogger{DebugLogger: logger, armed: true, prefix: "loaded profile=", reached: make(chan struct{}), release: make(chan struct{})}
	saved := logger
	logger = yl
	defer func() { logger = saved }()
	otp, err := totp.GenerateCode(totpSecret, time.Now())
	if err != nil {
		t.Fatal(err)
	}
	form := url.Values{}
	form.Set("OTP", otp)
	reqA, _ := http.NewRequest("POST", totpAuthPath, bytes.NewBufferString(form.Encode()))
	reqA.Header.Set("Content-Type", "application/x-www-form-urlencoded")
	reqA.AddCookie(authCookie)
	recA := httptest.NewRecorder()
	doneA := make(chan struct{})
	go func() {
		instrumentedwriter.NewLoggingHandler(http.HandlerFunc(state.TOTPAuthHandler), httpLogger{}).ServeHTTP(recA, reqA)
		close(doneA)
	}()
	select {
	case <-yl.reached:
	case <-time.After(10 * time.Second):
		t.Fatal("request A never loaded the profile")
	}
	// request B: the user disables the lost token; served completely while A is held
	formB := url.Values{}
	formB.Set("username", user)
	formB.Set("index", strconv.FormatInt(tokenIndex, 10))
	formB.Set("action", "Disable")
	reqB, _ := http.NewRequest("POST", u2fTokenManagementPath, bytes.NewBufferString(formB.Encode()))
	reqB.Header.Set("Content-Type", "application/x-www-form-urlencoded")
	reqB.AddCookie(authCookie)
	recB := httptest.NewRecorder()
	instrumentedwriter.NewLoggingHandler(http.HandlerFunc(state.u2fTokenManagerHandler), httpLogger{}).ServeHTTP(recB, reqB)
	afterB, _, _, err := state.LoadUserProfile(user)
	if err != nil {
		t.Fatal(err)
	}
	disabledAfterB := !afterB.U2fAuthData[tokenIndex].Enabled
	close(yl.release)
	<-doneA
	final, _, _, err := state.LoadUserProfile(user)
	if err != nil {
		t.Fatal(err)
	}
	t.Logf("disable request -> status %d, token disabled in the store: %v; concurrent TOTP log-in -> status %d; afterwards token enabled in the store: %v",
		recB.Code, disabledAfterB, recA.Code, final.U2fAuthData[tokenIndex].Enabled)
	if recB.Code < 400 && disabledAfterB && final.U2fAuthData[tokenIndex].Enabled {
		t.Logf("REPLAY-CONFIRMED: the acknowledged disable of a second-factor token was undone by a concurrent request of the same user")
	} else {
		t.Logf("REPLAY-NOT-REPRODUCED")
	}
}
