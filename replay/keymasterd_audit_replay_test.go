package main

// Replay for C20: is the certificate a signing function returns also handed to the audit stream?

import (
	"bufio"
	"bytes"
	"crypto/ecdsa"
	"crypto/elliptic"
	"crypto/rand"
	"crypto/x509"
	"crypto/x509/pkix"
	"encoding/json"
	"io"
	"math/big"
	"net"
	"net/http"
	"net/http/httptest"
	"os"
	"testing"
	"time"

	"github.com/Cloud-Foundations/keymaster/proto/eventmon"
)

// verifSubscribe attaches a subscriber to the global eventNotifier the way keymaster-eventmond does.
func verifSubscribe(t *testing.T) (<-chan eventmon.EventV0, func()) {
	server := httptest.NewServer(eventNotifier)
	conn, err := net.Dial("tcp", server.Listener.Addr().String())
	if err != nil {
		t.Fatal(err)
	}
	io.WriteString(conn, "CONNECT "+eventmon.HttpPath+" HTTP/1.0\n\n")
	reader := bufio.NewReader(conn)
	resp, err := http.ReadResponse(reader, &http.Request{Method: "CONNECT"})
	if err != nil {
		t.Fatal(err)
	}
	if resp.Status != eventmon.ConnectString {
		t.Fatalf("unexpected connect response: %s", resp.Status)
	}
	time.Sleep(200 * time.Millisecond)
	events := make(chan eventmon.EventV0, 64)
	go func() {
		decoder := json.NewDecoder(reader)
		for {
			var event eventmon.EventV0
			if err := decoder.Decode(&event); err != nil {
				close(events)
				return
			}
			events <- event
		}
	}()
	return events, func() { conn.Close(); server.Close() }
}

func TestVerifReplayCloudRoleCertPublished(t *testing.T) {
	state, passwdFile, err := setupValidRuntimeStateSigner(t)
	if err != nil {
		t.Fatal(err)
	}
	defer os.Remove(passwdFile.Name())
	events, done := verifSubscribe(t)
	defer done()
	key, _ := ecdsa.GenerateKey(elliptic.P256(), rand.Reader)
	template := &x509.Certificate{
		SerialNumber: big.NewInt(7),
		Subject:      pkix.Name{CommonName: "aws:iam:123456789012:some-role"},
		NotBefore:    time.Now(),
		NotAfter:     time.Now().Add(time.Hour),
	}
	der, err := state.generateRoleCert(template, key.Public())
	if err != nil {
		t.Fatalf("generateRoleCert: %v", err)
	}
	timeout := time.After(2 * time.Second)
	for {
		select {
		case ev, ok := <-events:
			if ok && ev.Type == eventmon.EventTypeX509Cert && bytes.Equal(ev.CertData, der) {
				t.Logf("signed %d bytes of DER for %q -> published to the subscriber", len(der), template.Subject.CommonName)
				t.Logf("REPLAY-NOT-REPRODUCED")
				return
			}
			if !ok {
				t.Fatal("subscriber disconnected")
			}
		case <-timeout:
			t.Logf("signed %d bytes of DER for %q -> no X.509 event with these bytes reached the subscriber within 2 s", len(der), template.Subject.CommonName)
			t.Logf("REPLAY-CONFIRMED: a certificate was signed and returned without being published to the audit stream")
			return
		}
	}
}
