package main

// Replay for C15: after a completed synchronisation the offline cache holds exactly the primary's users
// and unexpired signed records - additions, changes and deletions.

import (
	"os"
	"sort"
	"strings"
	"testing"
	"time"
)

func verifCacheUsers(t *testing.T, state *RuntimeState) []string {
	rows, err := state.cacheDB.Query("SELECT username FROM user_profile")
	if err != nil {
		t.Fatal(err)
	}
	defer rows.Close()
	var out []string
	for rows.Next() {
		var u string
		if err := rows.Scan(&u); err != nil {
			t.Fatal(err)
		}
		out = append(out, u)
	}
	sort.Strings(out)
	return out
}

func verifCacheSigned(t *testing.T, state *RuntimeState) []string {
	rows, err := state.cacheDB.Query("SELECT username FROM expiring_signed_user_data")
	if err != nil {
		t.Fatal(err)
	}
	defer rows.Close()
	var out []string
	for rows.Next() {
		var u string
		if err := rows.Scan(&u); err != nil {
			t.Fatal(err)
		}
		out = append(out, u)
	}
	sort.Strings(out)
	return out
}

func TestVerifReplayCacheMirrorsDeletions(t *testing.T) {
	state, passwdFile, err := setupValidRuntimeStateSigner(t)
	if err != nil {
		t.Fatal(err)
	}
	defer os.Remove(passwdFile.Name())
	tmpdir, err := os.MkdirTemp("", "verif-storage-")
	if err != nil {
		t.Fatal(err)
	}
	defer os.RemoveAll(tmpdir)
	state.Config.Base.DataDirectory = tmpdir
	if err := initDB(state); err != nil {
		t.Fatal(err)
	}
	defer func() { state.dbDone <- struct{}{} }()
	for _, u := range []string{"alice", "bob"} {
		p, _, _, err := state.LoadUserProfile(u)
		if err != nil {
			t.Fatal(err)
		}
		if err := state.SaveUserProfile(u, p); err != nil {
			t.Fatal(err)
		}
		if err := state.UpsertSigned(u, 1, time.Now().Add(time.Hour).Unix(), "hash-of-"+u); err != nil {
			t.Fatal(err)
		}
	}
	if err := copyDBIntoSQLite(state.db, state.cacheDB, "sqlite"); err != nil {
		t.Fatal(err)
	}
	before, beforeSigned := verifCacheUsers(t, state), verifCacheSigned(t, state)
	// the primary loses bob's profile and bob's signed record
	if err := state.DeleteUserProfile("bob"); err != nil {
		t.Fatal(err)
	}
	if err := state.DeleteSigned("bob", 1); err != nil {
		t.Fatal(err)
	}
	if err := copyDBIntoSQLite(state.db, state.cacheDB, "sqlite"); err != nil {
		t.Fatal(err)
	}
	after, afterSigned := verifCacheUsers(t, state), verifCacheSigned(t, state)
	t.Logf("cache users %v signed %v -> after deleting bob in the primary and a completed sync: users %v signed %v", before, beforeSigned, after, afterSigned)
	if strings.Join(after, ",") != "alice" || strings.Join(afterSigned, ",") != "alice" {
		t.Logf("REPLAY-CONFIRMED: a completed synchronisation leaves deleted data in the cache (users %v, signed records %v)", after, afterSigned)
	} else {
		t.Logf("REPLAY-NOT-REPRODUCED")
	}
}
