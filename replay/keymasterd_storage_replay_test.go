package main

// Replay for C15: after a completed synchronisation the offline cache holds exactly the primary's users
// and unexpired signed records - additions, changes and deletions.

import (
	"database/sql"
	"database/sql/driver"
	"errors"
	"io"
	"os"
	"sort"
	"strings"
	"sync"
	"testing"
	"time"
)

func verifCacheUsers(t *testing.T, state *RuntimeState) []string {
	rows, err := state.cacheDB.Query("SELECT username FROM user_profile")
	if err != nil {
		t.Fatal(err)
	}
	defer rows.Close()
	var out []string
	for rows.Next() {
		var u string
		if err := rows.Scan(&u); err != nil {
			t.Fatal(err)
		}
		out = append(out, u)
	}
	sort.Strings(out)
	return out
}

func verifCacheSigned(t *testing.T, state *RuntimeState) []string {
	rows, err := state.cacheDB.Query("SELECT username FROM expiring_signed_user_data")
	if err != nil {
		t.Fatal(err)
	}
	defer rows.Close()
	var out []string
	for rows.Next() {
		var u string
		if err := rows.Scan(&u); err != nil {
			t.Fatal(err)
		}
		out = append(out, u)
	}
	sort.Strings(out)
	return out
}

func TestVerifReplayCacheMirrorsDeletions(t *testing.T) {
	state, passwdFile, err := setupValidRuntimeStateSigner(t)
	if err != nil {
		t.Fatal(err)
	}
	defer os.Remove(passwdFile.Name())
	tmpdir, err := os.MkdirTemp("", "verif-storage-")
	if err != nil {
		t.Fatal(err)
	}
	defer os.RemoveAll(tmpdir)
	state.Config.Base.DataDirectory = tmpdir
	if err := initDB(state); err != nil {
		t.Fatal(err)
	}
	defer func() { state.dbDone <- struct{}{} }()
	for _, u := range []string{"alice", "bob"} {
		p, _, _, err := state.LoadUserProfile(u)
		if err != nil {
			t.Fatal(err)
		}
		if err := state.SaveUserProfile(u, p); err != nil {
			t.Fatal(err)
		}
		if err := state.UpsertSigned(u, 1, time.Now().Add(time.Hour).Unix(), "hash-of-"+u); err != nil {
			t.Fatal(err)
		}
	}
	if err := copyDBIntoSQLite(state.db, state.cacheDB, "sqlite"); err != nil {
		t.Fatal(err)
	}
	before, beforeSigned := verifCacheUsers(t, state), verifCacheSigned(t, state)
	// the primary loses bob's profile and bob's signed record
	if err := state.DeleteUserProfile("bob"); err != nil {
		t.Fatal(err)
	}
	if err := state.DeleteSigned("bob", 1); err != nil {
		t.Fatal(err)
	}
	if err := copyDBIntoSQLite(state.db, state.cacheDB, "sqlite"); err != nil {
		t.Fatal(err)
	}
	after, afterSigned := verifCacheUsers(t, state), verifCacheSigned(t, state)
	t.Logf("cache users %v signed %v -> after deleting bob in the primary and a completed sync: users %v signed %v", before, beforeSigned, after, afterSigned)
	if strings.Join(after, ",") != "alice" || strings.Join(afterSigned, ",") != "alice" {
		t.Logf("REPLAY-CONFIRMED: a completed synchronisation leaves deleted data in the cache (users %v, signed records %v)", after, afterSigned)
	} else {
		t.Logf("REPLAY-NOT-REPRODUCED")
	}
}

// ---- a source database that fails in the middle of reading the signed records (database/sql driver) ----------

type verifFaultyDriver struct{}
type verifFaultyConn struct{}
type verifFaultyStmt struct{ query string }
type verifFaultyRows struct {
	cols   []string
	rows   [][]driver.Value
	next   int
	failAt int // index at which Next reports an I/O error (-1: never)
}

func (verifFaultyDriver) Open(name string) (driver.Conn, error) { return verifFaultyConn{}, nil }
func (verifFaultyConn) Prepare(q string) (driver.Stmt, error)   { return verifFaultyStmt{q}, nil }
func (verifFaultyConn) Close() error                            { return nil }
func (verifFaultyConn) Begin() (driver.Tx, error)               { return nil, errors.New("read-only") }
func (verifFaultyStmt) Close() error                            { return nil }
func (verifFaultyStmt) NumInput() int                           { return -1 }
func (verifFaultyStmt) Exec(args []driver.Value) (driver.Result, error) {
	return nil, errors.New("read-only")
}
func (s verifFaultyStmt) Query(args []driver.Value) (driver.Rows, error) {
	if strings.Contains(s.query, "FROM user_profile") {
		return &verifFaultyRows{cols: []string{"username", "profile_data"}, failAt: -1,
			rows: [][]driver.Value{{"alice", []byte("profile-of-alice")}, {"bob", []byte("profile-of-bob")}}}, nil
	}
	exp := time.Now().Add(time.Hour).Unix()
	return &verifFaultyRows{cols: []string{"username", "type", "jws_data", "expiration_epoch", "update_epoch"}, failAt: 1,
		rows: [][]driver.Value{{"alice", int64(1), "jws-alice", exp, exp}, {"bob", int64(1), "jws-bob", exp, exp}}}, nil
}
func (r *verifFaultyRows) Columns() []string { return r.cols }
func (r *verifFaultyRows) Close() error      { return nil }
func (r *verifFaultyRows) Next(dest []driver.Value) error {
	if r.next == r.failAt {
		return errors.New("connection to the primary lost while reading")
	}
	if r.next >= len(r.rows) {
		return io.EOF
	}
	copy(dest, r.rows[r.next])
	r.next++
	return nil
}

var verifFaultyOnce sync.Once

// C15: a synchronisation that fails at any step leaves the cache equal to its previous or its new content.
// History of the model: the source's row iteration over the signed records stops on an error.
func TestVerifReplaySyncInterruptedWhileReading(t *testing.T) {
	verifFaultyOnce.Do(func() { sql.Register("verif-faulty-source", verifFaultyDriver{}) })
	state, passwdFile, err := setupValidRuntimeStateSigner(t)
	if err != nil {
		t.Fatal(err)
	}
	defer os.Remove(passwdFile.Name())
	tmpdir, err := os.MkdirTemp("", "verif-storage-")
	if err != nil {
		t.Fatal(err)
	}
	defer os.RemoveAll(tmpdir)
	state.Config.Base.DataDirectory = tmpdir
	if err := initDB(state); err != nil {
		t.Fatal(err)
	}
	defer func() { state.dbDone <- struct{}{} }()
	// previous content of the cache: alice only
	if _, err := state.cacheDB.Exec("INSERT INTO user_profile(username, profile_data) VALUES ('alice', x'00')"); err != nil {
		t.Fatal(err)
	}
	exp := time.Now().Add(time.Hour).Unix()
	if _, err := state.cacheDB.Exec("INSERT INTO expiring_signed_user_data(username, type, jws_data, expiration_epoch, update_epoch) VALUES ('alice', 1, 'old-jws-alice', ?, ?)", exp, exp); err != nil {
		t.Fatal(err)
	}
	source, err := sql.Open("verif-faulty-source", "")
	if err != nil {
		t.Fatal(err)
	}
	before, beforeSigned := verifCacheUsers(t, state), verifCacheSigned(t, state)
	err = copyDBIntoSQLite(source, state.cacheDB, "sqlite")
	after, afterSigned := verifCacheUsers(t, state), verifCacheSigned(t, state)
	t.Logf("cache before: users %v signed %v; primary: users [alice bob] signed [alice bob], reading the signed records fails after the first row -> copy returned err=%v, cache after: users %v signed %v", before, beforeSigned, err, after, afterSigned)
	isOld := strings.Join(after, ",") == strings.Join(before, ",") && strings.Join(afterSigned, ",") == strings.Join(beforeSigned, ",")
	isNew := strings.Join(after, ",") == "alice,bob" && strings.Join(afterSigned, ",") == "alice,bob"
	if !isOld && !isNew {
		t.Logf("REPLAY-CONFIRMED: an interrupted synchronisation left a mixture in the cache (users %v, signed records %v)", after, afterSigned)
	} else {
		t.Logf("REPLAY-NOT-REPRODUCED")
	}
}

// C07 / C15: each of the four writers, when it reports success, has changed the store (history of the model: a
// writer returns nil without having committed its transaction; the read that follows sees the old content).
func TestVerifReplayWritesAreCommitted(t *testing.T) {
	state, passwdFile, err := setupValidRuntimeStateSigner(t)
	if err != nil {
		t.Fatal(err)
	}
	defer os.Remove(passwdFile.Name())
	tmpdir, err := os.MkdirTemp("", "verif-storage-")
	if err != nil {
		t.Fatal(err)
	}
	defer os.RemoveAll(tmpdir)
	state.Config.Base.DataDirectory = tmpdir
	if err := initDB(state); err != nil {
		t.Fatal(err)
	}
	defer func() { state.dbDone <- struct{}{} }()
	confirmed := false
	p, _, _, err := state.LoadUserProfile("alice")
	if err != nil {
		t.Fatal(err)
	}
	if err := state.SaveUserProfile("alice", p); err == nil {
		if _, ok, _, _ := state.LoadUserProfile("alice"); !ok {
			t.Logf("REPLAY-CONFIRMED: SaveUserProfile returned nil but the profile is not in the store")
			confirmed = true
		}
	}
	if err := state.UpsertSigned("alice", 1, time.Now().Add(time.Hour).Unix(), "hash"); err == nil {
		if ok, _, _ := state.GetSigned("alice", 1); !ok {
			t.Logf("REPLAY-CONFIRMED: UpsertSigned returned nil but the record is not in the store")
			confirmed = true
		}
	}
	if err := state.DeleteSigned("alice", 1); err == nil {
		if ok, _, _ := state.GetSigned("alice", 1); ok {
			t.Logf("REPLAY-CONFIRMED: DeleteSigned returned nil but the record is still served")
			confirmed = true
		}
	}
	if err := state.DeleteUserProfile("alice"); err == nil {
		if _, ok, _, _ := state.LoadUserProfile("alice"); ok {
			t.Logf("REPLAY-CONFIRMED: DeleteUserProfile returned nil but the profile is still served")
			confirmed = true
		}
	}
	if !confirmed {
		t.Logf("REPLAY-NOT-REPRODUCED")
	}
}

// C15 "while the primary is unreachable, logins and second-factor checks continue from the cache": history of the
// model - the primary cannot even prepare the statement (its handle is closed: every statement fails at once); the
// profile and the signed record were mirrored into the cache beforehand.
func TestVerifReplayUnreachablePrimaryFallsBackToCache(t *testing.T) {
	state, passwdFile, err := setupValidRuntimeStateSigner(t)
	if err != nil {
		t.Fatal(err)
	}
	defer os.Remove(passwdFile.Name())
	tmpdir, err := os.MkdirTemp("", "verif-storage-")
	if err != nil {
		t.Fatal(err)
	}
	defer os.RemoveAll(tmpdir)
	state.Config.Base.DataDirectory = tmpdir
	if err := initDB(state); err != nil {
		t.Fatal(err)
	}
	state.dbDone <- struct{}{}
	p, _, _, err := state.LoadUserProfile("alice")
	if err != nil {
		t.Fatal(err)
	}
	if err := state.SaveUserProfile("alice", p); err != nil {
		t.Fatal(err)
	}
	if err := state.UpsertSigned("alice", 1, time.Now().Add(time.Hour).Unix(), "hash-of-alice"); err != nil {
		t.Fatal(err)
	}
	if err := copyDBIntoSQLite(state.db, state.cacheDB, "sqlite"); err != nil {
		t.Fatal(err)
	}
	state.remoteDBQueryTimeout = 200 * time.Millisecond
	state.db.Close()
	confirmed := false
	_, ok, fromCache, err := state.LoadUserProfile("alice")
	t.Logf("primary closed: LoadUserProfile -> ok=%v fromCache=%v err=%v", ok, fromCache, err)
	if err != nil || !ok || !fromCache {
		t.Logf("REPLAY-CONFIRMED: with the primary unreachable the profile is not served from the cache")
		confirmed = true
	}
	sok, data, err := state.GetSigned("alice", 1)
	t.Logf("primary closed: GetSigned -> ok=%v data=%q err=%v", sok, data, err)
	if err != nil || !sok || data != "hash-of-alice" {
		t.Logf("REPLAY-CONFIRMED: with the primary unreachable the signed record is not served from the cache")
		confirmed = true
	}
	if !confirmed {
		t.Logf("REPLAY-NOT-REPRODUCED")
	}
}
