package main

// Replay driver for C11 "IP-restricted automation certificates work only from their netblocks": an automation
// certificate minted for 10.0.0.0/8 is presented from 127.0.0.1 with the chain the TLS layer builds for it (the
// leaf and the role-requesting CA, which is in the client CA pool and carries the keymaster signing key).

import (
	"crypto/tls"
	"crypto/x509"
	"net"
	"net/http"
	"net/http/httptest"
	"os"
	"strings"
	"testing"
	"time"

	"github.com/Cloud-Foundations/keymaster/lib/instrumentedwriter"
)

func TestVerifReplayAutomationCertOutsideNetblock(t *testing.T) {
	state, passwdFile, err := setupValidRuntimeStateSigner(t)
	if err != nil {
		t.Fatal(err)
	}
	defer os.Remove(passwdFile.Name())
	state.Config.Base.AutomationUsers = append(state.Config.Base.AutomationUsers, "role1")
	state.Config.Base.AllowedAuthBackendsForCerts = []string{"password", "IPCertificate"}
	goodPub, err := getPubKeyFromPem(testUserPEMPublicKey)
	if err != nil {
		t.Fatal(err)
	}
	_, rrcert, err := state.withParamsGenerateRoleRequestingCert(&roleRequestingCertGenParams{
		Role: "role1", Duration: time.Hour, UserPub: goodPub,
		RequestorNetblocks: []net.IPNet{{IP: net.ParseIP("10.0.0.0"), Mask: net.CIDRMask(8, 32)}},
	})
	if err != nil {
		t.Fatal(err)
	}
	roleCA, err := x509.ParseCertificate(state.selfRoleCaCertDer)
	if err != nil {
		t.Fatal(err)
	}
	// the chain crypto/tls verifies for this leaf: the role-requesting CA is in the server's client CA pool
	pool := x509.NewCertPool()
	pool.AddCert(roleCA)
	chains, err := rrcert.Verify(x509.VerifyOptions{Roots: pool, KeyUsages: []x509.ExtKeyUsage{x509.ExtKeyUsageClientAuth}})
	if err != nil {
		t.Fatalf("the automation certificate does not verify under the role-requesting CA: %v", err)
	}
	send := func(remoteAddr string) (int, string) {
		req, err := createKeyBodyRequest("POST", "/certgen/role1?type=ssh", testUserSSHPublicKey, "")
		if err != nil {
			t.Fatal(err)
		}
		req.RemoteAddr = remoteAddr
		req.TLS = &tls.ConnectionState{VerifiedChains: chains, PeerCertificates: []*x509.Certificate{rrcert}}
		rr := httptest.NewRecorder()
		instrumentedwriter.NewLoggingHandler(http.HandlerFunc(state.certGenHandler), httpLogger{}).ServeHTTP(rr, req)
		return rr.Code, rr.Body.String()
	}
	inCode, _ := send("10.1.2.3:4444")
	outCode, outBody := send("127.0.0.1:4444")
	t.Logf("automation certificate for 10.0.0.0/8, chain of %d certificates: from 10.1.2.3 -> %d, from 127.0.0.1 -> %d", len(chains[0]), inCode, outCode)
	if outCode == 200 && strings.Contains(outBody, "ssh-") {
		t.Logf("REPLAY-CONFIRMED: the automation certificate authenticated a request from outside its netblocks and obtained a certificate")
	} else {
		t.Logf("REPLAY-NOT-REPRODUCED")
	}
}
