package main

// Replay drivers: run the real code of cmd/keymasterd on the inputs of a solver model.
// Injected with `go test -overlay` (nothing is written to /repo).

import (
	"crypto"
	"crypto/ecdsa"
	"crypto/ed25519"
	"crypto/elliptic"
	"crypto/rand"
	"crypto/rsa"
	"crypto/x509"
	"net"
	"encoding/hex"
	"encoding/json"
	"net/http"
	"net/http/httptest"
	"net/url"
	"os"
	"strconv"
	"strings"
	"testing"
	"time"

	"github.com/Cloud-Foundations/keymaster/lib/instrumentedwriter"
	"golang.org/x/crypto/ssh"
	"github.com/Cloud-Foundations/keymaster/lib/vip"
)

func verifReplayInputs(t *testing.T) map[string]string {
	m := map[string]string{}
	if err := json.Unmarshal([]byte(os.Getenv("VERIF_REPLAY_INPUTS")), &m); err != nil {
		t.Fatalf("bad VERIF_REPLAY_INPUTS: %v", err)
	}
	return m
}

func verifHex(t *testing.T, m map[string]string, k string) string {
	b, err := hex.DecodeString(m[k])
	if err != nil {
		t.Fatalf("bad hex input %s", k)
	}
	return string(b)
}

// the property's own definition of a same-origin destination (C17)
func verifSafeDest(s string) bool {
	if len(s) < 1 || s[0] != '/' {
		return false
	}
	if len(s) > 1 && (s[1] == '/' || s[1] == '\\') {
		return false
	}
	for i := 0; i < len(s); i++ {
		if s[i] < 0x20 || s[i] == 0x7f {
			return false
		}
	}
	return true
}

func TestVerifReplayGetLoginDestination(t *testing.T) {
	in := verifReplayInputs(t)
	dest := verifHex(t, in, "login_destination")
	form := url.Values{}
	form.Set("login_destination", dest)
	req, err := http.NewRequest("POST", "/api/v0/login", strings.NewReader(form.Encode()))
	if err != nil {
		t.Fatal(err)
	}
	req.Header.Set("Content-Type", "application/x-www-form-urlencoded")
	got := getLoginDestination(req)
	// what the browser receives: the Location header net/http.Redirect emits for that target
	rr := httptest.NewRecorder()
	http.Redirect(rr, req, got, http.StatusFound)
	loc := rr.Header().Get("Location")
	t.Logf("login_destination=%q -> getLoginDestination=%q Location=%q", dest, got, loc)
	if !verifSafeDest(got) {
		t.Logf("REPLAY-CONFIRMED: redirect target %q is not a same-origin path", got)
	} else if !verifSafeDest(loc) {
		t.Logf("REPLAY-CONFIRMED: emitted Location %q is not a same-origin path", loc)
	} else {
		t.Logf("REPLAY-NOT-REPRODUCED")
	}
}

// C13: the host rule ("a configured domain or a subdomain of one") on the real CanRedirectToURL.
func verifHostOK(h, d string) bool {
	d = strings.TrimPrefix(d, ".")
	return d != "" && (h == d || strings.HasSuffix(h, "."+d))
}

func TestVerifReplayCanRedirectHost(t *testing.T) {
	in := verifReplayInputs(t)
	var hosts, domains []string
	json.Unmarshal([]byte(in["hosts"]), &hosts)
	json.Unmarshal([]byte(in["domains"]), &domains)
	confirmed := false
	for _, hx := range hosts {
		hb, _ := hex.DecodeString(hx)
		for _, dx := range domains {
			db, _ := hex.DecodeString(dx)
			h, d := string(hb), string(db)
			client := OpenIDConnectClientConfig{ClientID: "c", AllowedRedirectDomains: []string{d}}
			raw := "https://" + h + "/cb"
			ok, u, err := client.CanRedirectToURL(raw)
			t.Logf("domain=%q url=%q -> ok=%v err=%v", d, raw, ok, err)
			if ok && u != nil && !verifHostOK(u.Hostname(), d) {
				t.Logf("REPLAY-CONFIRMED: host %q is neither %q nor a subdomain of it", u.Hostname(), d)
				confirmed = true
			}
			okc, _ := client.CorsOriginAllowed("https://" + h)
			if okc && !verifHostOK(h, d) {
				t.Logf("REPLAY-CONFIRMED: CORS origin host %q accepted for domain %q", h, d)
				confirmed = true
			}
		}
	}
	if !confirmed {
		t.Logf("REPLAY-NOT-REPRODUCED")
	}
}

// C04/C07: a signed storage record whose exp claim is in the past.
func TestVerifReplayExpiredStorageRecord(t *testing.T) {
	in := verifReplayInputs(t)
	age, _ := strconv.ParseInt(in["seconds_past_expiry"], 10, 64)
	if age <= 0 {
		age = 10
	}
	state, passwdFile, err := setupValidRuntimeStateSigner(t)
	if err != nil {
		t.Fatal(err)
	}
	defer os.Remove(passwdFile.Name())
	exp := time.Now().Unix() - age
	tok, err := state.genNewSerializedStorageStringDataJWT("username", 1, "cached-hash", exp)
	if err != nil {
		t.Fatal(err)
	}
	rec, err := state.getStorageDataFromStorageStringDataJWT(tok)
	t.Logf("record signed by this server, exp=%d (now=%d) -> err=%v subject=%q", exp, time.Now().Unix(), err, rec.Subject)
	if err == nil {
		t.Logf("REPLAY-CONFIRMED: an expired signed storage record is accepted")
	} else {
		t.Logf("REPLAY-NOT-REPRODUCED")
	}
}

// C06: a keymaster-issued *user* certificate presented to an endpoint that only takes IP-restricted
// certificates (mask = AuthTypeIPCertificate).
func TestVerifReplayCheckAuthKind(t *testing.T) {
	in := verifReplayInputs(t)
	mask, _ := strconv.Atoi(in["required"])
	if mask == 0 {
		mask = AuthTypeIPCertificate
	}
	state, tmpdir, err := testCreateRuntimeStateWithBothCAs(t)
	if err != nil {
		t.Fatal(err)
	}
	defer os.RemoveAll(tmpdir)
	recorder := httptest.NewRecorder()
	w := &instrumentedwriter.LoggingWriter{ResponseWriter: recorder}
	req := httptest.NewRequest("GET", refreshRoleRequestingCertPath, nil)
	req.TLS, err = testMakeConnectionState("testdata/bob.pem", "testdata/KeymasterCA.pem")
	if err != nil {
		t.Fatal(err)
	}
	ai, err := state.checkAuth(w, req, mask)
	if err != nil || ai == nil {
		t.Logf("required=%#x bob's keymaster user certificate -> refused (%v)", mask, err)
		t.Logf("REPLAY-NOT-REPRODUCED")
		return
	}
	t.Logf("required=%#x bob's keymaster user certificate -> admitted as %q with level %#x", mask, ai.Username, ai.AuthType)
	if ai.AuthType&mask == 0 {
		t.Logf("REPLAY-CONFIRMED: admitted with a credential kind the endpoint does not accept")
	} else {
		t.Logf("REPLAY-NOT-REPRODUCED")
	}
}

// C06: an IP-restricted automation certificate whose key is on the deny list.
func TestVerifReplayDeniedIPCert(t *testing.T) {
	state, passwdFile, err := setupValidRuntimeStateSigner(t)
	if err != nil {
		t.Fatal(err)
	}
	defer os.Remove(passwdFile.Name())
	state.Config.Base.AutomationUsers = append(state.Config.Base.AutomationUsers, "role1")
	userPub, err := getPubKeyFromPem(testUserPEMPublicKey)
	if err != nil {
		t.Fatal(err)
	}
	netblock := net.IPNet{IP: net.ParseIP("127.0.0.0"), Mask: net.CIDRMask(8, 32)}
	params := roleRequestingCertGenParams{Role: "role1", Duration: time.Hour, RequestorNetblocks: []net.IPNet{netblock}, UserPub: userPub}
	_, rrcert, err := state.withParamsGenerateRoleRequestingCert(&params)
	if err != nil {
		t.Fatal(err)
	}
	fp, err := getKeyFingerprint(rrcert.PublicKey)
	if err != nil {
		t.Fatal(err)
	}
	state.Config.DenyTrustData.KeyDenyFPsshSha256 = []string{fp}
	req := httptest.NewRequest("POST", refreshRoleRequestingCertPath, nil)
	req.RemoteAddr = "127.0.0.1:12345"
	chains := [][]*x509.Certificate{{rrcert}}
	user, _, userErr, err := state.getUsernameIfIPRestricted(chains, req)
	t.Logf("deny-listed key %s.. presented from inside the netblock -> user=%q userErr=%v err=%v", fp[:12], user, userErr, err)
	if userErr == nil && err == nil && user != "" {
		t.Logf("REPLAY-CONFIRMED: a deny-listed key authenticates through an IP-restricted certificate")
	} else {
		t.Logf("REPLAY-NOT-REPRODUCED")
	}
}

// C05: a VIP push approved for another user's transaction, polled with the attacker's session.
func TestVerifReplayVIPPollOtherUser(t *testing.T) {
	const approved = `<?xml version="1.0"?>
<S:Envelope xmlns:S="http://schemas.xmlsoap.org/soap/envelope/"><S:Body>
<PollPushStatusResponse xmlns="https://schemas.symantec.com/vip/2011/04/vipuserservices">
<requestId>1</requestId><status>0000</status><statusMessage>Success</statusMessage>
<transactionStatus><transactionId>tx-victim</transactionId><status>7000</status><statusMessage>Mobile push request approved by user</statusMessage></transactionStatus>
</PollPushStatusResponse></S:Body></S:Envelope>`
	srv := httptest.NewTLSServer(http.HandlerFunc(func(w http.ResponseWriter, r *http.Request) { w.Write([]byte(approved)) }))
	defer srv.Close()
	state, passwdFile, err := setupValidRuntimeStateSigner(t)
	if err != nil {
		t.Fatal(err)
	}
	defer os.Remove(passwdFile.Name())
	pool := x509.NewCertPool()
	pool.AddCert(srv.Certificate())
	state.Config.SymantecVIP.Enabled = true
	state.Config.SymantecVIP.Client = &vip.Client{VipUserServicesURL: srv.URL, VipUserServiceAuthenticationURL: srv.URL, RootCAs: pool, Cert: srv.TLS.Certificates[0]}
	// the victim started a push; its transaction is stored under the victim's poll cookie value
	state.vipPushCookie = map[string]pushPollTransaction{"victim-poll-cookie": {Username: "victim", TransactionID: "tx-victim", ExpiresAt: time.Now().Add(time.Minute)}}
	// the attacker holds a password-only session of their own and presents the victim's poll cookie value
	cookieVal, err := state.genNewSerializedAuthJWT("attacker", AuthTypePassword, 60)
	if err != nil {
		t.Fatal(err)
	}
	req := httptest.NewRequest("GET", vipPollCheckPath, nil)
	req.AddCookie(&http.Cookie{Name: authCookieName, Value: cookieVal})
	req.AddCookie(&http.Cookie{Name: vipTransactionCookieName, Value: "victim-poll-cookie"})
	rec := httptest.NewRecorder()
	w := &instrumentedwriter.LoggingWriter{ResponseWriter: rec}
	state.VIPPollCheckHandler(w, req)
	level := 0
	for _, c := range rec.Result().Cookies() {
		if c.Name == authCookieName {
			if info, err := state.getAuthInfoFromAuthJWT(c.Value); err == nil {
				level = info.AuthType
				t.Logf("attacker's session polled the victim's approved push -> status %d, new cookie for %q with level %#x", rec.Code, info.Username, info.AuthType)
			}
		}
	}
	if level&AuthTypeSymantecVIP != 0 {
		t.Logf("REPLAY-CONFIRMED: a push approved by another user raised this session's level")
	} else {
		t.Logf("status %d, no upgraded cookie", rec.Code)
		t.Logf("REPLAY-NOT-REPRODUCED")
	}
}

// C05: a factor proven by the certificate user (bob, via his own bootstrap OTP) while the request carries
// another user's session cookie: whose session is upgraded?
func TestVerifReplayUpgradeOtherUsersCookie(t *testing.T) {
	state, tmpdir, err := testCreateRuntimeStateWithBootstrapOTP(t, time.Minute)
	if err != nil {
		t.Fatal(err)
	}
	defer os.RemoveAll(tmpdir)
	recorder := httptest.NewRecorder()
	w := &instrumentedwriter.LoggingWriter{ResponseWriter: recorder}
	req := httptest.NewRequest("POST", "/", nil)
	req.TLS, err = testMakeConnectionState("testdata/bob.pem", "testdata/KeymasterCA.pem")
	if err != nil {
		t.Fatal(err)
	}
	req.Form = make(url.Values)
	req.Form.Add("OTP", testBootstrapOTP)
	victimCookie, err := state.genNewSerializedAuthJWT("victim", AuthTypePassword, 60)
	if err != nil {
		t.Fatal(err)
	}
	req.AddCookie(&http.Cookie{Name: authCookieName, Value: victimCookie})
	state.BootstrapOtpAuthHandler(w, req)
	confirmed := false
	for _, c := range recorder.Result().Cookies() {
		if c.Name == authCookieName {
			if info, err := state.getAuthInfoFromAuthJWT(c.Value); err == nil {
				t.Logf("certificate user %q proved a bootstrap OTP; request cookie was victim's -> new cookie subject=%q level=%#x (status %d)", testBootstrapUser, info.Username, info.AuthType, recorder.Code)
				if info.Username != testBootstrapUser && info.AuthType&AuthTypeBootstrapOTP != 0 {
					confirmed = true
				}
			}
		}
	}
	if confirmed {
		t.Logf("REPLAY-CONFIRMED: another user's session gained the factor")
	} else {
		t.Logf("status %d; no cookie of another user was upgraded", recorder.Code)
		t.Logf("REPLAY-NOT-REPRODUCED")
	}
}

// C14: the fifth consecutive failed TOTP evaluation must lock the user out for (at least) an hour.
func TestVerifReplayTOTPLockoutEscalation(t *testing.T) {
	state, tmpdir, err := testCreateRuntimeStateWithBothCAs(t)
	if err != nil {
		t.Fatal(err)
	}
	defer os.RemoveAll(tmpdir)
	const user = "username"
	if err := state.SaveUserProfile(user, &userProfile{}); err != nil {
		t.Fatal(err)
	}
	if state.totpLocalRateLimit == nil {
		state.totpLocalRateLimit = make(map[string]totpRateLimitInfo)
	}
	state.totpLocalRateLimit[user] = totpRateLimitInfo{failCount: 4, lastCheckTime: time.Now().Add(-10 * time.Second), lastFailTime: time.Now().Add(-10 * time.Second), lockoutExpirationTime: time.Now().Add(-10 * time.Second)}
	ok, err := state.validateUserTOTP(user, 123456, time.Now())
	rec := state.totpLocalRateLimit[user]
	t.Logf("fifth failed evaluation -> accepted=%v err=%v failCount=%d lock-out ends %s from now", ok, err, rec.failCount, time.Until(rec.lockoutExpirationTime).Round(time.Second))
	if !ok && err == nil && rec.failCount%5 == 0 && rec.failCount > 0 && time.Until(rec.lockoutExpirationTime) < 59*time.Minute {
		t.Logf("REPLAY-CONFIRMED: no lock-out after the fifth failure")
	} else {
		t.Logf("REPLAY-NOT-REPRODUCED")
	}
}

// C09: /readyz answers 200 exactly when the CA signer is loaded. The model of a failed obligation fixes
// which of the two signer fields are nil; the four combinations are all replayed.
func TestVerifReplayReadyz(t *testing.T) {
	state, passwdFile, err := setupValidRuntimeStateSigner(t)
	if err != nil {
		t.Fatal(err)
	}
	defer os.Remove(passwdFile.Name())
	signer := state.Signer
	confirmed := false
	for _, signerNil := range []bool{true, false} {
		for _, edNil := range []bool{true, false} {
			state.Signer, state.Ed25519Signer = nil, nil
			if !signerNil {
				state.Signer = signer
			}
			if !edNil {
				state.Ed25519Signer = signer
			}
			rr := httptest.NewRecorder()
			state.readyzHandler(rr, httptest.NewRequest("GET", "/readyz", nil))
			t.Logf("Signer nil=%v Ed25519Signer nil=%v -> status %d", signerNil, edNil, rr.Code)
			if (rr.Code == 200) != !signerNil {
				t.Logf("REPLAY-CONFIRMED: readiness %d while the CA signer is nil=%v", rr.Code, signerNil)
				confirmed = true
			}
		}
	}
	if !confirmed {
		t.Logf("REPLAY-NOT-REPRODUCED")
	}
}

// C09: after the signers are loaded, the published key list contains both signing keys. Scenario of the
// model: one of the signers' public keys is already in the list when signerPublicKeyToKeymasterKeys runs.
func TestVerifReplayPublishedKeys(t *testing.T) {
	state, passwdFile, err := setupValidRuntimeStateSigner(t)
	if err != nil {
		t.Fatal(err)
	}
	defer os.Remove(passwdFile.Name())
	_, edPriv, err := ed25519.GenerateKey(rand.Reader)
	if err != nil {
		t.Fatal(err)
	}
	confirmed := false
	for _, pre := range []string{"none", "ed25519", "signer", "both"} {
		state.Ed25519Signer = edPriv
		state.KeymasterPublicKeys = nil
		if pre == "ed25519" || pre == "both" {
			state.KeymasterPublicKeys = append(state.KeymasterPublicKeys, edPriv.Public())
		}
		if pre == "signer" || pre == "both" {
			state.KeymasterPublicKeys = append(state.KeymasterPublicKeys, state.Signer.Public())
		}
		if err := state.signerPublicKeyToKeymasterKeys(); err != nil {
			t.Fatal(err)
		}
		has := func(k crypto.PublicKey) bool {
			want, _ := getKeyFingerprint(k)
			for _, p := range state.KeymasterPublicKeys {
				if fp, _ := getKeyFingerprint(p); fp == want {
					return true
				}
			}
			return false
		}
		t.Logf("already published: %s -> %d keys published, signer=%v ed25519=%v", pre, len(state.KeymasterPublicKeys), has(state.Signer.Public()), has(edPriv.Public()))
		if !has(state.Signer.Public()) || !has(edPriv.Public()) {
			t.Logf("REPLAY-CONFIRMED: a signing key is missing from the published keys")
			confirmed = true
		}
	}
	if !confirmed {
		t.Logf("REPLAY-NOT-REPRODUCED")
	}
}

// C18: the hidden login_destination input is built as raw markup. Render the real login page for the
// destination of the model and look at the element the way a browser tokenises it: the attribute value ends
// at the first double quote; if what follows differs from the fixed `>` the request text supplied markup.
func TestVerifReplayLoginPageMarkup(t *testing.T) {
	in := verifReplayInputs(t)
	dest := verifHex(t, in, "login_destination")
	state, passwdFile, err := setupValidRuntimeStateSigner(t)
	if err != nil {
		t.Fatal(err)
	}
	defer os.Remove(passwdFile.Name())
	if err := state.loadTemplates(); err != nil {
		t.Fatal(err)
	}
	rr := httptest.NewRecorder()
	state.writeHTMLLoginPage(rr, httptest.NewRequest("GET", "/", nil), 200, "", dest, "")
	body := rr.Body.String()
	const open = `NAME="login_destination" VALUE="`
	i := strings.Index(body, open)
	if i < 0 {
		t.Logf("login_destination=%q -> no hidden input in the page (status %d)", dest, rr.Code)
		t.Logf("REPLAY-NOT-REPRODUCED")
		return
	}
	rest := body[i+len(open):]
	j := strings.Index(rest, `"`)
	value, after := rest[:j], rest[j+1:]
	if k := strings.Index(after, "\n"); k >= 0 {
		after = after[:k]
	}
	t.Logf("login_destination=%q -> attribute value %q followed by %q", dest, value, after)
	if !strings.HasPrefix(after, ">") || strings.ContainsAny(value, "<>") {
		t.Logf("REPLAY-CONFIRMED: request text closes the attribute / supplies markup: ...VALUE=\"%s\"%s", value, after)
	} else {
		t.Logf("REPLAY-NOT-REPRODUCED")
	}
}

// C19: a genuine, strong key of a type the keymaster client generates must not be refused by the server's
// key-line gate. The model names the key type (first word of the line); a real key of that type is generated.
func TestVerifReplayOfferedKeyType(t *testing.T) {
	in := verifReplayInputs(t)
	var signer crypto.Signer
	var err error
	switch in["key_type"] {
	case "ssh-rsa":
		signer, err = rsa.GenerateKey(rand.Reader, 2048)
	case "ecdsa-sha2-nistp256":
		signer, err = ecdsa.GenerateKey(elliptic.P256(), rand.Reader)
	case "ecdsa-sha2-nistp384":
		signer, err = ecdsa.GenerateKey(elliptic.P384(), rand.Reader)
	case "ssh-ed25519":
		_, signer, err = ed25519.GenerateKey(rand.Reader)
	default:
		t.Logf("REPLAY-NOT-REPRODUCED: the client does not generate %q keys", in["key_type"])
		return
	}
	if err != nil {
		t.Fatal(err)
	}
	pub, err := ssh.NewPublicKey(signer.Public())
	if err != nil {
		t.Fatal(err)
	}
	line := string(ssh.MarshalAuthorizedKey(pub))
	key, userErr, err := getValidSSHPublicKey(line)
	t.Logf("client key line %q... -> key accepted=%v userErr=%v err=%v", line[:40], key != nil, userErr, err)
	if key == nil {
		t.Logf("REPLAY-CONFIRMED: the server refuses a %s key, which the client offers", in["key_type"])
	} else {
		t.Logf("REPLAY-NOT-REPRODUCED")
	}
}

// C01: a certificate is issued exactly when the session proves one of the operator-listed methods (a
// hardware-token session always qualifies). Replay of a failing level obligation: the real certGenHandler
// is driven with a server-signed session cookie for every (single listed method, level) pair of the space the
// model lives in - 7 method names x (11 single factor bits and their combination with the password bit).
func TestVerifReplayCertLevel(t *testing.T) {
	state, passwdFile, err := setupValidRuntimeStateSigner(t)
	if err != nil {
		t.Fatal(err)
	}
	defer os.Remove(passwdFile.Name())
	methods := map[string]int{"password": -1, "U2F": AuthTypeU2F, "TOTP": AuthTypeTOTP, "SymantecVIP": AuthTypeSymantecVIP,
		"IPCertificate": AuthTypeIPCertificate, "Okta2FA": AuthTypeOkta2FA, "WebauthForCLI": AuthTypeWebauthForCLI}
	bits := []int{AuthTypePassword, AuthTypeFederated, AuthTypeU2F, AuthTypeSymantecVIP, AuthTypeIPCertificate, AuthTypeTOTP,
		AuthTypeOkta2FA, AuthTypeBootstrapOTP, AuthTypeKeymasterX509, AuthTypeWebauthForCLI, AuthTypeFIDO2}
	var levels []int
	for _, b := range bits {
		levels = append(levels, b, b|AuthTypePassword)
	}
	confirmed := 0
	for name, bit := range methods {
		state.Config.Base.AllowedAuthBackendsForCerts = []string{name}
		for _, level := range levels {
			want := bit == -1 || level&bit == bit || level&AuthTypeU2F == AuthTypeU2F
			req, err := createKeyBodyRequest("POST", "/certgen/username", testUserSSHPublicKey, "")
			if err != nil {
				t.Fatal(err)
			}
			cookieVal, err := state.genNewSerializedAuthJWT("username", level, 600)
			if err != nil {
				t.Fatal(err)
			}
			req.AddCookie(&http.Cookie{Name: authCookieName, Value: cookieVal})
			rr := httptest.NewRecorder()
			state.certGenHandler(&instrumentedwriter.LoggingWriter{ResponseWriter: rr}, req)
			got := rr.Code == 200
			if got != want {
				confirmed++
				if confirmed <= 4 {
					t.Logf("listed=[%s] session level=%#x -> status %d, the property says issued=%v", name, level, rr.Code, want)
				}
			}
		}
	}
	if confirmed > 0 {
		t.Logf("REPLAY-CONFIRMED: %d (method, level) pairs are served against the operator's list", confirmed)
	} else {
		t.Logf("REPLAY-NOT-REPRODUCED")
	}
}
