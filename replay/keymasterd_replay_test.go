package main

// Replay drivers: run the real code of cmd/keymasterd on the inputs of a solver model.
// Injected with `go test -overlay` (nothing is written to /repo).

import (
	"encoding/hex"
	"encoding/json"
	"net/http"
	"net/url"
	"os"
	"strings"
	"testing"
)

func verifReplayInputs(t *testing.T) map[string]string {
	m := map[string]string{}
	if err := json.Unmarshal([]byte(os.Getenv("VERIF_REPLAY_INPUTS")), &m); err != nil {
		t.Fatalf("bad VERIF_REPLAY_INPUTS: %v", err)
	}
	return m
}

func verifHex(t *testing.T, m map[string]string, k string) string {
	b, err := hex.DecodeString(m[k])
	if err != nil {
		t.Fatalf("bad hex input %s", k)
	}
	return string(b)
}

// the property's own definition of a same-origin destination (C17)
func verifSafeDest(s string) bool {
	if len(s) < 1 || s[0] != '/' {
		return false
	}
	if len(s) > 1 && (s[1] == '/' || s[1] == '\\') {
		return false
	}
	for i := 0; i < len(s); i++ {
		if s[i] < 0x20 || s[i] == 0x7f {
			return false
		}
	}
	return true
}

func TestVerifReplayGetLoginDestination(t *testing.T) {
	in := verifReplayInputs(t)
	dest := verifHex(t, in, "login_destination")
	form := url.Values{}
	form.Set("login_destination", dest)
	req, err := http.NewRequest("POST", "/api/v0/login", strings.NewReader(form.Encode()))
	if err != nil {
		t.Fatal(err)
	}
	req.Header.Set("Content-Type", "application/x-www-form-urlencoded")
	got := getLoginDestination(req)
	t.Logf("login_destination=%q -> getLoginDestination=%q", dest, got)
	if !verifSafeDest(got) {
		t.Logf("REPLAY-CONFIRMED: redirect target %q is not a same-origin path", got)
	} else {
		t.Logf("REPLAY-NOT-REPRODUCED")
	}
}
