package eventrecorder

// Bounded stand-in for C20's history clause (labelled bounded in the evidence, never counted as proved):
// the real recordEvent / getEventsList / saveEvents / loadEvents / expireOldEvents are run on every history of
// one user with at most 5 events (4 in the quick tier) over 4 event kinds, each event inside or outside the retention window.
// Expected: after save + load the events inside the window come back in the same order (newest first as
// getEventsList reports them); events outside the window are dropped; nothing else changes; and when the oldest
// loaded entry ages out afterwards, the expiry run of the restarted daemon drops that entry only.

import (
	"fmt"
	"os"
	"path/filepath"
	"reflect"
	"testing"
	"time"
)

func verifHistory(l *eventsListType) []EventType {
	var out []EventType
	if l == nil {
		return out
	}
	for e := l.newest; e != nil; e = e.older {
		out = append(out, e.EventType)
	}
	return out
}

func TestVerifBoundedHistoryRoundTrip(t *testing.T) {
	dir, err := os.MkdirTemp("", "verif-history-")
	if err != nil {
		t.Fatal(err)
	}
	defer os.RemoveAll(dir)
	file := filepath.Join(dir, "events.gob")
	now := uint64(time.Now().Unix())
	old := uint64(time.Now().Add(-durationMonth - time.Hour).Unix())
	kinds := []EventType{{WebLogin: true}, {ServiceProviderUrl: "https://sp.example/"}, {Ssh: true, LifetimeSeconds: 3600}, {AuthType: 1}}
	cases, bad := 0, 0
	maxLen := 4 // quick tier; the thorough tier runs the stated bound of 5
	if os.Getenv("VERIF_TIER") == "thorough" {
		maxLen = 5
	}
	for n := 0; n <= maxLen; n++ {
		total := 1
		for i := 0; i < n; i++ {
			total *= len(kinds) * 2
		}
		for code := 0; code < total; code++ {
			sr := &EventRecorder{eventsMap: map[string]*eventsListType{}}
			var want []EventType // newest first, retention applied
			c := code
			var recorded []EventType
			for i := 0; i < n; i++ {
				k := kinds[c%len(kinds)]
				c /= len(kinds)
				expired := c%2 == 1
				c /= 2
				ev := &eventType{EventType: k}
				sr.recordEvent("user", ev)
				// recordEvent stamps the current time; events are recorded oldest first, so an expired
				// event can only be followed by expired or fresh ones in time order: keep times monotone
				if expired && len(want) == 0 {
					ev.CreateTime = old + uint64(i)
				} else {
					ev.CreateTime = now - uint64(maxLen) + uint64(i)
				}
				recorded = append(recorded, ev.EventType)
				if ev.CreateTime >= now-uint64(maxLen) {
					want = append([]EventType{ev.EventType}, want...)
				}
			}
			var last *Events
			evs := sr.getEventsList(&last)
			if err := saveEvents(file, evs.Events); err != nil {
				t.Fatal(err)
			}
			loaded, err := loadEvents(file)
			cases++
			if err != nil {
				// the save reported success, yet what it left cannot be loaded: the history is lost at the restart
				bad++
				if bad <= 3 {
					fmt.Printf("BOUNDED-VIOLATION history of %d events %+v: saved without error, but the restarted daemon cannot load the file: %v\n", n, recorded, err)
				}
				continue
			}
			got := verifHistory(loaded["user"])
			if len(got) == 0 && len(want) == 0 {
				continue
			}
			if !reflect.DeepEqual(got, want) {
				bad++
				if bad <= 3 {
					fmt.Printf("BOUNDED-VIOLATION history of %d events recorded oldest-first %+v: reported before the restart (newest first, retained) %+v, after save+load %+v\n", n, recorded, want, got)
				}
				continue
			}
			// the restarted daemon goes on with the loaded history: when its oldest entry ages out, the expiry run
			// drops that entry and nothing else (the loaded list must be linked in both directions for that)
			if l := loaded["user"]; l != nil && l.oldest != nil {
				l.oldest.CreateTime = old
				sr2 := &EventRecorder{eventsMap: loaded}
				sr2.expireOldEvents()
				after := verifHistory(loaded["user"])
				if !reflect.DeepEqual(append([]EventType{}, after...), append([]EventType{}, want[:len(want)-1]...)) && !(len(after) == 0 && len(want) == 1) {
					bad++
					if bad <= 3 {
						fmt.Printf("BOUNDED-VIOLATION history %+v after save+load: its oldest entry aged out, the expiry run left %+v, expected %+v\n", want, after, want[:len(want)-1])
					}
				}
			}
		}
	}
	fmt.Printf("BOUNDED-CASES %d violations %d\n", cases, bad)
}
