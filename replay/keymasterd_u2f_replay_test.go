package main

// Replay driver for the one-time property of U2F challenges (C05): a software U2F token signs one
// assertion for the challenge stored for the user; the same assertion is then presented twice.

import (
	"bytes"
	"crypto/ecdsa"
	"crypto/elliptic"
	"crypto/rand"
	"crypto/sha256"
	"crypto/x509"
	"crypto/x509/pkix"
	"encoding/base64"
	"encoding/binary"
	"encoding/json"
	"math/big"
	"net/http"
	"net/http/httptest"
	"os"
	"strings"
	"testing"
	"time"

	"github.com/Cloud-Foundations/keymaster/lib/instrumentedwriter"
	"github.com/duo-labs/webauthn/webauthn"
	"github.com/tstranex/u2f"
)

func verifU2FRegistration(t *testing.T, key *ecdsa.PrivateKey, kh []byte) *u2f.Registration {
	tmpl := x509.Certificate{SerialNumber: big.NewInt(1), Subject: pkix.Name{CommonName: "soft token"},
		NotBefore: time.Now().Add(-time.Hour), NotAfter: time.Now().Add(time.Hour)}
	der, err := x509.CreateCertificate(rand.Reader, &tmpl, &tmpl, &key.PublicKey, key)
	if err != nil {
		t.Fatal(err)
	}
	d := sha256.Sum256([]byte("registration"))
	sig, _ := ecdsa.SignASN1(rand.Reader, key, d[:])
	raw := []byte{0x05}
	raw = append(raw, elliptic.Marshal(elliptic.P256(), key.X, key.Y)...)
	raw = append(raw, byte(len(kh)))
	raw = append(raw, kh...)
	raw = append(raw, der...)
	raw = append(raw, sig...)
	var reg u2f.Registration
	if err := reg.UnmarshalBinary(raw); err != nil {
		t.Fatal(err)
	}
	return &reg
}

func TestVerifReplayU2FChallengeReuse(t *testing.T) {
	state, tmpdir, err := testCreateRuntimeStateWithBothCAs(t)
	if err != nil {
		t.Fatal(err)
	}
	defer os.RemoveAll(tmpdir)
	const user = "username"
	appID := "https://" + state.HostIdentity
	b64 := func(b []byte) string { return strings.TrimRight(base64.URLEncoding.EncodeToString(b), "=") }
	// a legacy registration of some other token (the handler insists on at least one) ...
	otherKey, _ := ecdsa.GenerateKey(elliptic.P256(), rand.Reader)
	otherKH := []byte("other-token-key-handle-000000000")
	// ... and the token the user actually holds, registered through webauthn
	key, _ := ecdsa.GenerateKey(elliptic.P256(), rand.Reader)
	kh := []byte("webauthn-token-key-handle-111111")
	profile := &userProfile{
		U2fAuthData:  map[int64]*u2fAuthData{1: {Enabled: true, Name: "old", Registration: verifU2FRegistration(t, otherKey, otherKH)}},
		WebauthnData: map[int64]*webauthAuthData{2: {Enabled: true, Name: "new", Credential: webauthn.Credential{ID: kh, PublicKey: elliptic.Marshal(elliptic.P256(), key.X, key.Y)}}},
	}
	if err := state.SaveUserProfile(user, profile); err != nil {
		t.Fatal(err)
	}
	challenge := &u2f.Challenge{Challenge: []byte("0123456789abcdef0123456789abcdef"), Timestamp: time.Now(), AppID: appID, TrustedFacets: []string{appID}}
	state.localAuthData = map[string]localUserData{user: {U2fAuthChallenge: challenge, ExpiresAt: time.Now().Add(time.Minute)}}
	clientData, _ := json.Marshal(map[string]string{"typ": "navigator.id.getAssertion", "challenge": b64(challenge.Challenge), "origin": appID})
	rawAuth := []byte{0x01, 0, 0, 0, 7} // user present, counter 7
	appParam := sha256.Sum256([]byte(appID))
	cdHash := sha256.Sum256(clientData)
	var buf []byte
	buf = append(buf, appParam[:]...)
	buf = append(buf, rawAuth...)
	buf = append(buf, cdHash[:]...)
	digest := sha256.Sum256(buf)
	sig, _ := ecdsa.SignASN1(rand.Reader, key, digest[:])
	_ = binary.BigEndian
	signResp, _ := json.Marshal(u2f.SignResponse{KeyHandle: b64(kh), SignatureData: b64(append(append([]byte{}, rawAuth...), sig...)), ClientData: b64(clientData)})
	present := func() (int, int) {
		cookieVal, err := state.genNewSerializedAuthJWT(user, AuthTypePassword, 60)
		if err != nil {
			t.Fatal(err)
		}
		req := httptest.NewRequest("POST", u2fSignResponsePath, bytes.NewReader(signResp))
		req.AddCookie(&http.Cookie{Name: authCookieName, Value: cookieVal})
		rec := httptest.NewRecorder()
		state.u2fSignResponse(&instrumentedwriter.LoggingWriter{ResponseWriter: rec}, req)
		level := 0
		for _, c := range rec.Result().Cookies() {
			if c.Name == authCookieName {
				if info, err := state.getAuthInfoFromAuthJWT(c.Value); err == nil {
					level = info.AuthType
				}
			}
		}
		return rec.Code, level
	}
	c1, l1 := present()
	_, still := state.localAuthData[user]
	c2, l2 := present()
	t.Logf("first presentation -> status %d level %#x (challenge still stored: %v); same assertion again -> status %d level %#x", c1, l1, still, c2, l2)
	if l1&AuthTypeU2F != 0 && l2&AuthTypeU2F != 0 {
		t.Logf("REPLAY-CONFIRMED: an accepted hardware-token challenge was honoured a second time")
	} else {
		t.Logf("REPLAY-NOT-REPRODUCED")
	}
}

// C16: the in-memory challenge map is shared by every request; run under the race detector (go test -race),
// a genuine U2F sign response is served while another goroutine uses the map the way every other handler
// does (under state.Mutex). An access outside the mutex is reported by the detector as a DATA RACE.
func TestVerifReplayU2FChallengeMapRace(t *testing.T) {
	state, tmpdir, err := testCreateRuntimeStateWithBothCAs(t)
	if err != nil {
		t.Fatal(err)
	}
	defer os.RemoveAll(tmpdir)
	const user = "username"
	appID := "https://" + state.HostIdentity
	b64 := func(b []byte) string { return strings.TrimRight(base64.URLEncoding.EncodeToString(b), "=") }
	key, _ := ecdsa.GenerateKey(elliptic.P256(), rand.Reader)
	kh := []byte("legacy-token-key-handle-22222222")
	profile := &userProfile{
		U2fAuthData: map[int64]*u2fAuthData{1: {Enabled: true, Name: "tok", Registration: verifU2FRegistration(t, key, kh)}},
	}
	if err := state.SaveUserProfile(user, profile); err != nil {
		t.Fatal(err)
	}
	challenge := &u2f.Challenge{Challenge: []byte("0123456789abcdef0123456789abcdef"), Timestamp: time.Now(), AppID: appID, TrustedFacets: []string{appID}}
	state.localAuthData = map[string]localUserData{user: {U2fAuthChallenge: challenge, ExpiresAt: time.Now().Add(time.Minute)}}
	clientData, _ := json.Marshal(map[string]string{"typ": "navigator.id.getAssertion", "challenge": b64(challenge.Challenge), "origin": appID})
	rawAuth := []byte{0x01, 0, 0, 0, 7}
	appParam := sha256.Sum256([]byte(appID))
	cdHash := sha256.Sum256(clientData)
	var buf []byte
	buf = append(buf, appParam[:]...)
	buf = append(buf, rawAuth...)
	buf = append(buf, cdHash[:]...)
	digest := sha256.Sum256(buf)
	sig, _ := ecdsa.SignASN1(rand.Reader, key, digest[:])
	signResp, _ := json.Marshal(u2f.SignResponse{KeyHandle: b64(kh), SignatureData: b64(append(append([]byte{}, rawAuth...), sig...)), ClientData: b64(clientData)})
	cookieVal, err := state.genNewSerializedAuthJWT(user, AuthTypePassword, 60)
	if err != nil {
		t.Fatal(err)
	}
	stop := make(chan struct{})
	done := make(chan struct{})
	go func() { // what VIP / login / cleanup handlers do with the map
		defer close(done)
		for {
			select {
			case <-stop:
				return
			default:
			}
			state.Mutex.Lock()
			_, _ = state.localAuthData["someone-else"]
			state.Mutex.Unlock()
		}
	}()
	req := httptest.NewRequest("POST", u2fSignResponsePath, bytes.NewReader(signResp))
	req.AddCookie(&http.Cookie{Name: authCookieName, Value: cookieVal})
	rec := httptest.NewRecorder()
	state.u2fSignResponse(&instrumentedwriter.LoggingWriter{ResponseWriter: rec}, req)
	close(stop)
	<-done
	t.Logf("sign response served with status %d while the map was in use under the mutex elsewhere -> see the race detector's report, if any", rec.Code)
}

// C16: a one-time value presented twice at the same moment is honoured at most once. The same genuine U2F
// assertion (answering the one stored challenge) is presented by 8 sessions of the user at the same moment;
// rounds are repeated (fresh challenge each) until two presentations of one round are both honoured.
func TestVerifReplayU2FSimultaneousPresentation(t *testing.T) {
	state, tmpdir, err := testCreateRuntimeStateWithBothCAs(t)
	if err != nil {
		t.Fatal(err)
	}
	defer os.RemoveAll(tmpdir)
	const user = "username"
	appID := "https://" + state.HostIdentity
	b64 := func(b []byte) string { return strings.TrimRight(base64.URLEncoding.EncodeToString(b), "=") }
	key, _ := ecdsa.GenerateKey(elliptic.P256(), rand.Reader)
	kh := []byte("legacy-token-key-handle-33333333")
	profile := &userProfile{
		U2fAuthData: map[int64]*u2fAuthData{1: {Enabled: true, Name: "tok", Registration: verifU2FRegistration(t, key, kh)}},
	}
	if err := state.SaveUserProfile(user, profile); err != nil {
		t.Fatal(err)
	}
	const sessions = 8
	worst := 0
	rounds := 0
	for rounds = 1; rounds <= 200 && worst < 2; rounds++ {
		chal := make([]byte, 32)
		rand.Read(chal)
		challenge := &u2f.Challenge{Challenge: chal, Timestamp: time.Now(), AppID: appID, TrustedFacets: []string{appID}}
		state.Mutex.Lock()
		state.localAuthData = map[string]localUserData{user: {U2fAuthChallenge: challenge, ExpiresAt: time.Now().Add(time.Minute)}}
		state.Mutex.Unlock()
		clientData, _ := json.Marshal(map[string]string{"typ": "navigator.id.getAssertion", "challenge": b64(challenge.Challenge), "origin": appID})
		rawAuth := []byte{0x01, 0, 0, 0, byte(rounds)}
		appParam := sha256.Sum256([]byte(appID))
		cdHash := sha256.Sum256(clientData)
		var buf []byte
		buf = append(buf, appParam[:]...)
		buf = append(buf, rawAuth...)
		buf = append(buf, cdHash[:]...)
		digest := sha256.Sum256(buf)
		sig, _ := ecdsa.SignASN1(rand.Reader, key, digest[:])
		signResp, _ := json.Marshal(u2f.SignResponse{KeyHandle: b64(kh), SignatureData: b64(append(append([]byte{}, rawAuth...), sig...)), ClientData: b64(clientData)})
		var reqs []*http.Request
		for i := 0; i < sessions; i++ {
			cookieVal, err := state.genNewSerializedAuthJWT(user, AuthTypePassword, 60)
			if err != nil {
				t.Fatal(err)
			}
			req := httptest.NewRequest("POST", u2fSignResponsePath, bytes.NewReader(signResp))
			req.AddCookie(&http.Cookie{Name: authCookieName, Value: cookieVal})
			reqs = append(reqs, req)
		}
		start := make(chan struct{})
		results := make(chan bool, sessions)
		for _, req := range reqs {
			go func(req *http.Request) {
				rec := httptest.NewRecorder()
				<-start
				state.u2fSignResponse(&instrumentedwriter.LoggingWriter{ResponseWriter: rec}, req)
				honoured := false
				for _, c := range rec.Result().Cookies() {
					if c.Name == authCookieName {
						if info, err := state.getAuthInfoFromAuthJWT(c.Value); err == nil && info.AuthType&AuthTypeU2F != 0 {
							honoured = true
						}
					}
				}
				results <- honoured
			}(req)
		}
		close(start)
		n := 0
		for i := 0; i < sessions; i++ {
			if <-results {
				n++
			}
		}
		if n > worst {
			worst = n
		}
	}
	t.Logf("%d sessions present one assertion at the same moment, %d rounds -> at most %d of them were honoured in one round", sessions, rounds-1, worst)
	if worst >= 2 {
		t.Logf("REPLAY-CONFIRMED: one hardware-token assertion was honoured %d times", worst)
	} else {
		t.Logf("REPLAY-NOT-REPRODUCED")
	}
}

// C05 "expired ones never work": the challenge stored for the user carries an ExpiresAt one minute in the past (the
// janitor has not come round yet); a software token answers it correctly.
func TestVerifReplayU2FChallengeExpired(t *testing.T) {
	state, tmpdir, err := testCreateRuntimeStateWithBothCAs(t)
	if err != nil {
		t.Fatal(err)
	}
	defer os.RemoveAll(tmpdir)
	const user = "username"
	appID := "https://" + state.HostIdentity
	b64 := func(b []byte) string { return strings.TrimRight(base64.URLEncoding.EncodeToString(b), "=") }
	// a legacy registration of some other token (the handler insists on at least one) ...
	otherKey, _ := ecdsa.GenerateKey(elliptic.P256(), rand.Reader)
	otherKH := []byte("other-token-key-handle-000000000")
	// ... and the token the user actually holds, registered through webauthn
	key, _ := ecdsa.GenerateKey(elliptic.P256(), rand.Reader)
	kh := []byte("webauthn-token-key-handle-111111")
	profile := &userProfile{
		U2fAuthData:  map[int64]*u2fAuthData{1: {Enabled: true, Name: "old", Registration: verifU2FRegistration(t, otherKey, otherKH)}},
		WebauthnData: map[int64]*webauthAuthData{2: {Enabled: true, Name: "new", Credential: webauthn.Credential{ID: kh, PublicKey: elliptic.Marshal(elliptic.P256(), key.X, key.Y)}}},
	}
	if err := state.SaveUserProfile(user, profile); err != nil {
		t.Fatal(err)
	}
	challenge := &u2f.Challenge{Challenge: []byte("0123456789abcdef0123456789abcdef"), Timestamp: time.Now(), AppID: appID, TrustedFacets: []string{appID}}
	state.localAuthData = map[string]localUserData{user: {U2fAuthChallenge: challenge, ExpiresAt: time.Now().Add(-time.Minute)}}
	clientData, _ := json.Marshal(map[string]string{"typ": "navigator.id.getAssertion", "challenge": b64(challenge.Challenge), "origin": appID})
	rawAuth := []byte{0x01, 0, 0, 0, 7} // user present, counter 7
	appParam := sha256.Sum256([]byte(appID))
	cdHash := sha256.Sum256(clientData)
	var buf []byte
	buf = append(buf, appParam[:]...)
	buf = append(buf, rawAuth...)
	buf = append(buf, cdHash[:]...)
	digest := sha256.Sum256(buf)
	sig, _ := ecdsa.SignASN1(rand.Reader, key, digest[:])
	_ = binary.BigEndian
	signResp, _ := json.Marshal(u2f.SignResponse{KeyHandle: b64(kh), SignatureData: b64(append(append([]byte{}, rawAuth...), sig...)), ClientData: b64(clientData)})
	present := func() (int, int) {
		cookieVal, err := state.genNewSerializedAuthJWT(user, AuthTypePassword, 60)
		if err != nil {
			t.Fatal(err)
		}
		req := httptest.NewRequest("POST", u2fSignResponsePath, bytes.NewReader(signResp))
		req.AddCookie(&http.Cookie{Name: authCookieName, Value: cookieVal})
		rec := httptest.NewRecorder()
		state.u2fSignResponse(&instrumentedwriter.LoggingWriter{ResponseWriter: rec}, req)
		level := 0
		for _, c := range rec.Result().Cookies() {
			if c.Name == authCookieName {
				if info, err := state.getAuthInfoFromAuthJWT(c.Value); err == nil {
					level = info.AuthType
				}
			}
		}
		return rec.Code, level
	}
	c1, l1 := present()
	t.Logf("challenge whose ExpiresAt passed a minute ago, valid assertion -> status %d level %#x", c1, l1)
	if l1&AuthTypeU2F != 0 {
		t.Logf("REPLAY-CONFIRMED: an expired hardware-token challenge was honoured")
	} else {
		t.Logf("REPLAY-NOT-REPRODUCED")
	}
}
