#!/usr/bin/env python3
"""Prints the markdown table of DESIGN.md section 9 from seeded/*/meta.json."""
import json, os, re, collections
V = os.path.dirname(os.path.dirname(os.path.abspath(__file__)))
rows = collections.OrderedDict()
tot = det = 0
for sid in sorted(os.listdir(V + "/seeded")):
    mp = os.path.join(V, "seeded", sid, "meta.json")
    if not os.path.exists(mp):
        continue
    m = json.load(open(mp))
    prop = sid.split("-")[0]
    short = sid.split("-", 1)[1]
    change = re.sub(r"^#?\s*C\d\d\s*/\s*\w+\s*[-—–]+\s*", "", m.get("change", "")).strip()
    change = change[:95] + ("..." if len(change) > 95 else "")
    r = rows.setdefault(prop, {"caught": [], "missed": [], "na": []})
    if m.get("detected") is None:
        r["na"].append("%s (%s)" % (short, m.get("note", "patch no longer applies")[:60]))
        continue
    tot += 1
    if m.get("detected"):
        det += 1
        h = m["detections"][0]
        ob = (h.get("obligations") or ["?"])[0]
        ob = ob.split(".", 1)[1] if ob.startswith("keymasterd.") else ob
        by = "" if h["check"] == prop else " (by %s)" % h["check"]
        r["caught"].append("%s `%s`%s" % (short, ob[-70:], by))
    else:
        why = ""
        if m.get("engine_errors"):
            why = " [engine error]"
        r["missed"].append("**%s**%s: %s" % (short, why, change))
print("| property | caught (seed: failing obligation) | missed | no longer applicable |")
print("|---|---|---|---|")
for prop, r in rows.items():
    print("| %s | %s | %s | %s |" % (prop, "; ".join(r["caught"]) or "-", "; ".join(r["missed"]) or "-", "; ".join(r["na"]) or "-"))
print()
print("%d of %d applicable seeded changes are caught." % (det, tot))
