#!/usr/bin/env python3
"""Runs the check(s) of each seeded change against /repo with the change applied and (re)writes
seeded/<id>/meta.json.  usage: tools/seed_matrix.py [--src /tmp/seed-out] [ids...]
With --src, confirmed seeds found there are first copied into /verif/seeded."""
import json, os, re, shutil, subprocess, sys
V = "/verif"
EXTRA = {  # checks, besides the seed's own property, that are worth running against it
 "C01": ["C04", "C06", "C09", "C11"], "C02": ["C06", "C09"], "C03": ["C06"], "C04": ["C12", "C07"], "C06": ["C04", "C05", "C08", "C11"], "C07": ["C14", "C04", "C15"],
 "C09": ["C06"], "C10": ["C11"], "C11": ["C06"], "C16": ["C14"], "C19": ["C10"],
}
def sh(cmd, **kw):
    return subprocess.run(cmd, shell=True, capture_output=True, text=True, **kw)
def built(prop):
    m = json.load(open(V + "/MANIFEST.json"))
    return prop in [c["property_id"] for c in m["checks"]]
def first_line(path):
    for l in open(path):
        l = l.strip().lstrip("# ").strip()
        if l:
            return l
    return ""
def main():
    args = sys.argv[1:]
    src = None
    prefix = ""
    if args and args[0] == "--src":
        src = args[1]; args = args[2:]
    if args and args[0] == "--prefix":
        prefix = args[1]; args = args[2:]
    if src:
        for prop in sorted(os.listdir(src)):
            d = os.path.join(src, prop)
            if not (os.path.isdir(d) and re.match(r"C\d\d$", prop)):
                continue
            for m in sorted(os.listdir(d)):
                sd = os.path.join(d, m)
                log = os.path.join(sd, "confirm.log")
                if not os.path.exists(log):
                    continue
                conf = [l.strip() for l in open(log) if re.match(r"(CLEAN-DEMO|APPLY|BUILD|MUT-DEMO|EXISTING):", l)]
                ok = conf == ["CLEAN-DEMO: pass", "APPLY: ok", "BUILD: ok", "MUT-DEMO: FAIL", "EXISTING: ok"]
                # a change that a later fix: commit made harmless (its demonstration passes with the patch applied) is kept
                # as a canary: no check may report it
                ok = ok or conf == ["CLEAN-DEMO: pass", "APPLY: ok", "BUILD: ok", "MUT-DEMO: pass", "EXISTING: ok"]
                dst = os.path.join(V, "seeded", prop + "-" + prefix + m)
                if not ok:
                    print("not confirmed, skipped:", prop, m, conf)
                    continue
                if not os.path.exists(dst):
                    os.makedirs(dst)
                    for f in os.listdir(sd):
                        shutil.copy(os.path.join(sd, f), dst)
    ids = args or sorted(os.listdir(V + "/seeded"))
    # a scratch worktree of /repo HEAD and a private copy of the engine: /repo and bin/engine stay free
    shard = os.environ.get("SHARD", "")
    WT = "/tmp/wt-matrix" + shard
    sh("git -C /repo worktree remove --force %s; rm -rf %s" % (WT, WT))
    if sh("git -C /repo worktree add -q --detach %s HEAD" % WT).returncode != 0:
        sys.exit("cannot create scratch worktree")
    ENG = "/tmp/engine-matrix" + shard
    shutil.copy(V + "/bin/engine", ENG)
    # a private copy of /verif too (evidence and replay files of seeded runs must not land in /verif)
    VC = "/tmp/verif-matrix" + shard
    sh("rm -rf %s; mkdir -p %s; rsync -a --exclude .git --exclude bin --exclude replays --exclude seeded %s/ %s/" % (VC, VC, V, VC))
    try:
        run(ids, WT, ENG + " check -verif " + VC)
    finally:
        sh("git -C /repo worktree remove --force %s; rm -rf %s %s %s" % (WT, WT, ENG, VC))

def run(ids, WT, ENG):
    for sid in ids:
        d = os.path.join(V, "seeded", sid)
        if not os.path.isdir(d):
            continue
        prop = sid.split("-")[0]
        metap = os.path.join(d, "meta.json")
        meta = json.load(open(metap)) if os.path.exists(metap) else {"property": prop}
        meta.setdefault("change", first_line(os.path.join(d, "notes.md")))
        if os.path.exists(os.path.join(d, "confirm.log")):
            meta["confirmation"] = [l.strip() for l in open(os.path.join(d, "confirm.log")) if re.match(r"(CLEAN-DEMO|APPLY|BUILD|MUT-DEMO|EXISTING):", l)]
            meta["confirmed_by"] = "tools/confirm_seed.sh in a scratch worktree of /repo HEAD (unshare -n): patch applies and builds; existing tests of the touched packages pass apart from the baseline's always-failing ones; demo passes on the clean tree and fails with the patch"
        props = [p for p in [prop] + EXTRA.get(prop, []) if built(p)]
        patch = os.path.join(d, "patch.diff")
        applied_with = "git apply"
        if sh("git -C %s apply --check %s" % (WT, patch)).returncode != 0 and sh("cd %s && patch -p1 --dry-run -s < %s" % (WT, patch)).returncode == 0:
            applied_with = "patch"
        if applied_with == "git apply" and sh("git -C %s apply --check %s" % (WT, patch)).returncode != 0:
            meta["detected"] = None
            meta["note"] = "patch no longer applies to /repo HEAD (a later fix: commit touched the same lines)"
            json.dump(meta, open(metap, "w"), indent=1)
            print(sid, "PATCH-DOES-NOT-APPLY")
            continue
        if applied_with == "patch":
            sh("cd %s && patch -p1 -s --no-backup-if-mismatch < %s" % (WT, patch))
        else:
            sh("git -C %s apply %s" % (WT, patch))
        hits = []
        errors = []
        try:
            for p in props:
                r = sh("cd /verif && timeout 1200 %s -repo %s -prop %s -tier quick" % (ENG, WT, p))
                obl = re.findall(r"^obligation (\S+) at (\S+): (\w+)", r.stdout, re.M)
                obl += [("bounded:" + b, "", "bounded") for b in re.findall(r"^bounded check (\S+):", r.stdout, re.M)]
                vio = re.findall(r"^VIOLATION .*$", r.stdout, re.M)
                brk = re.findall(r"^BROKEN.*$", r.stdout, re.M)
                if brk:
                    errors.append({"check": p, "broken": brk[:3]})
                elif vio:
                    hits.append({"check": p, "obligations": [o[0] for o in obl][:6], "replayed": any("no-failing-input-found" not in v for v in vio), "broken": brk[:2]})
        finally:
            sh("git -C %s checkout -q -- . && git -C %s clean -fdq" % (WT, WT))
        meta["checks_run"] = props
        meta["detected"] = bool(hits) if props else False
        harmless = "MUT-DEMO: pass" in meta.get("confirmation", [])
        if harmless and not hits:
            meta["detected"] = None
            meta.setdefault("note", "harmless on /repo HEAD (the demonstration passes with the patch applied: a later fix: commit enforces the property elsewhere), hence correctly not reported")
        if harmless and hits:
            print(sid, "FALSE-ALARM-ON-HARMLESS-CHANGE", hits)
        meta["detections"] = hits
        meta.pop("engine_errors", None)
        if errors:
            meta["engine_errors"] = errors
        for k in ("detected_by_check", "failing_obligation", "how_run"):
            meta.pop(k, None)
        if hits:
            meta["detected_by_check"] = hits[0]["check"]
            meta["failing_obligation"] = (hits[0]["obligations"] or ["?"])[0]
        meta["how_run"] = "tools/try_seed.sh seeded/%s/patch.diff %s" % (sid, " ".join(props) if props else prop)
        if not props:
            meta["note"] = "no check is claimed for %s (see MANIFEST not_applicable)" % prop
        json.dump(meta, open(metap, "w"), indent=1)
        if errors:
            print(sid, "ENGINE-ERROR", errors)
        print(sid, "DETECTED by " + ",".join(h["check"] + ":" + (h["obligations"] or ["?"])[0] for h in hits) if hits else ("missed" if props else "no-check"))
if __name__ == "__main__":
    main()
