#!/bin/bash
# usage: tools/try_seed.sh <patch.diff> <prop> [<prop>...]  -- applies the patch to /repo, runs the checks, restores /repo
p=$1; shift
cd /repo || exit 2
if [ -n "$(git status --porcelain)" ]; then echo "repo not clean"; exit 2; fi
if ! git apply --check "$p" 2>/dev/null; then
  if ! patch -p1 --dry-run -s < "$p" >/dev/null 2>&1; then echo "PATCH-DOES-NOT-APPLY $p"; exit 3; fi
  patch -p1 -s < "$p"
else
  git apply "$p"
fi
for prop in "$@"; do
  (cd /verif && timeout 900 ./check $prop 2>&1 | grep -v "^  replay" | tail -${TAILN:-4})
done
git checkout -q -- . ; git clean -fdq -e zz_verif_contracts.go >/dev/null 2>&1
find . -name '*.orig' -delete; find . -name '*.rej' -delete
