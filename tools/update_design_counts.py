#!/usr/bin/env python3
"""Rewrites the obligation counts in the per-property headers of DESIGN.md section 7 ("**Cxx (n/n ...)**") from the
evidence files of the last run (quick tier)."""
import json, os, re
V = os.path.dirname(os.path.dirname(os.path.abspath(__file__)))
p = os.path.join(V, "DESIGN.md")
s = open(p).read()
def sub(m):
    pid, rest = m.group(1), m.group(3)
    try:
        c = json.load(open(os.path.join(V, "evidence", pid + ".json")))["coverage"]
    except Exception:
        return m.group(0)
    return "**%s (%d/%d%s)**" % (pid, c["discharged"], c["obligations"], rest)
s2 = re.sub(r"\*\*(C\d\d) \((\d+/\d+)([^)]*)\)\*\*", sub, s)
import glob
names, fns, tot = set(), set(), 0
for f in sorted(glob.glob(os.path.join(V, "evidence", "C*.json"))):
    c = json.load(open(f))["coverage"]
    tot += c["obligations"]
    for o in c["obligation_results"]:
        names.add(o.get("name"))
    for fn in c["functions_under_contract"]:
        fns.add(fn if isinstance(fn, str) else fn.get("name"))
s2 = re.sub(r"\(\d+ distinct named\s+obligations over \d+ functions of `/repo`, \d+ counted per property",
            "(%d distinct named\nobligations over %d functions of `/repo`, %d counted per property" % (len(names), len(fns), tot), s2)
open(p, "w").write(s2)
print("updated" if s2 != s else "unchanged")
