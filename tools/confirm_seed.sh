#!/bin/bash
# usage: tools/confirm_seed.sh <prop> <mN> [dir]   (reads /tmp/seed-out/<prop>/<mN>, or dir, e.g. /verif/seeded/<prop>-<mN>)
# Confirms in a scratch worktree of /repo HEAD: (1) patch applies and builds, (2) existing tests of the
# touched packages still pass (known-bad ones ignored), (3) demo fails with the patch, passes without.
prop=$1; m=$2; src=${3:-/tmp/seed-out/$prop/$m}
wt=/tmp/wt-confirm-$prop-$m
log=$src/confirm.log
exec > $log 2>&1
export GOFLAGS=-mod=mod GOPROXY=off
git -C /repo worktree remove --force $wt 2>/dev/null; rm -rf $wt
git -C /repo worktree add -q --detach $wt HEAD || exit 2
cd $wt
run() { unshare -n sh -c "ip link set lo up; $*"; }
KNOWN='TestCheckLDAPURLsSuccess|TestCheckLDAPConnectionSuccess|TestCheckLDAPGetLDAPUserGroupsSuccess|TestCheckLDAPUserPasswordFailInvalidUser|TestCheckLDAPUserPasswordSuccess|TestPasswordAuthetnicateCache|TestPasswordAuthetnicateSimple|TestVerifySingleTokenFail'
# where do the demos go?
demodir=$(grep -l "^package main" $src/*_test.go >/dev/null 2>&1 && echo cmd/keymasterd)
pkgs=$(grep '^+++ b/' $src/patch.diff | sed 's|+++ b/||; s|/[^/]*$||' | sort -u | sed 's|^|./|' | tr '\n' ' ')
echo "PKGS: $pkgs"
place_demos() {
  for f in $src/*_test.go; do
    pk=$(grep -m1 '^package ' $f | awk '{print $2}')
    case $pk in
      main) d=cmd/keymasterd;;
      certgen) d=lib/certgen;;
      util) d=lib/client/util;;
      *) d=$(grep -rl "^package $pk\$" --include=*.go . | head -1 | xargs dirname);;
    esac
    cp $f $d/zz_seed_$(basename $f)
    echo "$d"
  done | sort -u
}
demodirs=$(place_demos)
echo "DEMO DIRS: $demodirs"
demo_run() { r=0; for d in $demodirs; do run "go test -vet=off -count=1 -run TestSeeded ./$d/" || r=1; done; return $r; }
echo "=== demo on clean tree (must pass)"
if demo_run; then echo "CLEAN-DEMO: pass"; else echo "CLEAN-DEMO: FAIL"; fi
echo "=== apply patch"
if git apply $src/patch.diff 2>/dev/null || patch -p1 -s < $src/patch.diff; then echo "APPLY: ok"; else echo "APPLY: FAIL"; fi
echo "=== build"
if go build -o /dev/null ./cmd/keymasterd/ && go build ./lib/... ./keymasterd/... ./eventmon/... 2>&1 | grep -v "bearsh\|twofa\|u2fhid" | grep -q "rror"; then echo "BUILD: FAIL"; else echo "BUILD: ok"; fi
echo "=== demo with patch (must fail)"
if demo_run; then echo "MUT-DEMO: pass"; else echo "MUT-DEMO: FAIL"; fi
echo "=== existing tests with patch (must pass apart from known-bad)"
rm -f $(find . -name 'zz_seed_*')
bad=0
for p in $pkgs $(for d in $demodirs; do echo ./$d; done); do
  out=$(run "go test -vet=off -count=1 $p/ 2>&1")
  fails=$(echo "$out" | grep '^--- FAIL' | grep -Ev "$KNOWN")
  if [ -n "$fails" ]; then echo "EXISTING-FAIL in $p: $fails"; bad=1; fi
  if echo "$out" | grep -q "panic:\|build failed"; then echo "EXISTING-PANIC/BUILD in $p"; echo "$out" | tail -5; bad=1; fi
done
[ $bad = 0 ] && echo "EXISTING: ok" || echo "EXISTING: FAIL"
cd /; git -C /repo worktree remove --force $wt; rm -rf $wt
