#!/usr/bin/env python3
"""Replaces the generated seed table of DESIGN.md section 9 by the current output of tools/seed_table.py."""
import os, re, subprocess
V = os.path.dirname(os.path.dirname(os.path.abspath(__file__)))
t = subprocess.run([os.path.join(V, "tools", "seed_table.py")], capture_output=True, text=True).stdout.strip() + "\n"
p = os.path.join(V, "DESIGN.md")
s = open(p).read()
i = s.index("| property | caught (seed: failing obligation)")
j = re.search(r"\d+ of \d+ applicable seeded changes are caught\.\n", s[i:]).end() + i
open(p, "w").write(s[:i] + t + s[j:])
print(t.splitlines()[-1])
