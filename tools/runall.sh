#!/bin/bash
# usage: tools/runall.sh [tier]   -- runs every check that has contracts, one summary line each
cd /verif
for p in ${PROPS:-C01 C02 C03 C04 C05 C06 C07 C08 C09 C10 C11 C12 C13 C14 C15 C16 C17 C18 C19 C20}; do
  timeout 1200 ./check $p ${1:-quick} 2>&1 | grep -E "quick:|thorough:|VIOLATION|BROKEN|KNOWN-FINDING" | cut -c1-220
done
