#!/bin/bash
# usage: [SEEDROOT=/tmp/seed-out3] tools/try_r2.sh <prop> [checks...]   -- runs the seeds of $SEEDROOT/<prop> against the checks
p=$1; shift; checks=${@:-$p}
for m in m1 m2 m3; do
  d=${SEEDROOT:-/tmp/seed-out2}/$p/$m
  [ -f $d/patch.diff ] || continue
  echo "== $p $m: $(head -1 $d/notes.md | cut -c1-150)"
  TAILN=${TAILN:-3} /verif/tools/try_seed.sh $d/patch.diff $checks 2>&1 | grep -E "^obligation|quick:|BROKEN|PATCH" | cut -c1-260
done
