#!/bin/bash
# usage: tools/mkwt.sh <name>   -> scratch worktree /tmp/wt-<name> of /repo HEAD without the contract files
set -e
d=/tmp/wt-$1
git -C /repo worktree remove --force $d 2>/dev/null || true
rm -rf $d
git -C /repo worktree add -q --detach $d HEAD
cd $d
find . -name 'zz_verif_contracts.go' -delete
git -c user.name=scratch -c user.email=s@x commit -qam "scratch: hide contract files" || true
echo $d
