#!/bin/bash
# Re-confirms every seeded change against the current /repo HEAD (fix: commits can make an older seed harmless
# or unappliable). Writes seeded/<id>/confirm.log and prints one line per seed.
cd /verif
for d in seeded/*/; do
  id=$(basename $d); prop=${id%%-*}; m=${id##*-}
  tools/confirm_seed.sh $prop $m /verif/seeded/$id
  printf "%s: " $id; grep -E "^(CLEAN-DEMO|APPLY|BUILD|MUT-DEMO|EXISTING)" seeded/$id/confirm.log | tr '\n' ' '; echo
done
