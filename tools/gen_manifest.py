#!/usr/bin/env python3
"""Regenerates /verif/MANIFEST.json from the table below (kept in one place so that it stays valid)."""
import json, subprocess, os
V = os.path.dirname(os.path.dirname(os.path.abspath(__file__)))

TRUST = ("Trusted: go/types+go/ssa front end, the VC generator in /verif/engine, the SMT solvers; "
         "the trusted library contracts in /verif/contracts/trusted listed in the evidence file; "
         "library callees without a contract modify only what their arguments point to; no concurrency. ")

CLAIMED = {
 "C17": dict(
   text="Deductive proof (weakest preconditions over go/ssa, SMT) that getLoginDestination returns only same-origin paths as the property defines them, "
        "for every submitted string, and that every login/2FA/federated redirect site passes such a value; unbounded in the input.",
   note=TRUST + "net/http form parsing (FormValue/Values.Get) and http.Redirect are trusted contracts.",
   design="7 (C17)"),
}

NOT_YET = "check not built yet in this snapshot of /verif (work in progress; see DESIGN.md section 7 for the planned contracts)"
ALL = ["C%02d" % i for i in range(1, 21)]

def main():
    hooks = subprocess.run(["git", "-C", "/repo", "log", "--format=%H %s"], capture_output=True, text=True).stdout.splitlines()
    hook_commits = [l.split()[0] for l in hooks if l.split(" ", 1)[1].startswith("verif:")]
    checks = []
    for pid in ALL:
        if pid not in CLAIMED:
            continue
        c = CLAIMED[pid]
        checks.append({
            "property_id": pid,
            "quick_cmd": "./check %s quick" % pid,
            "thorough_cmd": "./check %s thorough" % pid,
            "evidence_file": "evidence/%s.json" % pid,
            "replay_cmd_template": "./check --replay {path}",
            "engine": "verif-engine",
            "level_claimed": {"category": "proof", "text": c["text"], "design_ref": "DESIGN.md section " + c["design"]},
            "level_note": c["note"],
            "technique": c.get("technique", "contract-based deductive verification: WP/VC generation over go/ssa of /repo, contracts in //@ comment files, obligations discharged by z3/cvc5"),
        })
    na = [{"property_id": p, "reason": NOT_APPLICABLE.get(p, NOT_YET)} for p in ALL if p not in CLAIMED]
    m = {
        "version": 1,
        "setup_cmd": "./setup.sh",
        "hooks": {
            "guard": "verif",
            "enable": "-tags verif (the tag only adds comment-only zz_verif_contracts.go files; the engine reads them and overlays generated spec functions in memory)",
            "baseline_off_cmd": "cd /repo && go test -mod=mod -json -vet=off -count=1 -timeout 25m ./...",
            "source_commits": hook_commits,
            "add_only": True,
        },
        "engines": [{
            "name": "verif-engine", "path": "engine/",
            "serves_properties": sorted(CLAIMED.keys()),
            "kind_free_text": "deductive verifier for Go written for this repository: go/ssa -> loop-cut passive form -> one SMT-LIB obligation per ensures / callee precondition / loop invariant / implicit run-time check; contracts are //@ comments compiled to Go spec functions by go/types; solvers raced per obligation",
        }],
        "checks": checks,
        "not_applicable": na,
        "notes": "See DESIGN.md. known_findings.json lists recorded and fixed defects.",
    }
    json.dump(m, open(os.path.join(V, "MANIFEST.json"), "w"), indent=1)
    print("MANIFEST.json: %d checks, %d not_applicable" % (len(checks), len(na)))

NOT_APPLICABLE = {}

if __name__ == "__main__":
    main()
