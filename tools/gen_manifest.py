#!/usr/bin/env python3
"""Regenerates /verif/MANIFEST.json from the table below (kept in one place so that it stays valid)."""
import json, subprocess, os
V = os.path.dirname(os.path.dirname(os.path.abspath(__file__)))

TRUST = ("Trusted: go/types+go/ssa front end, the VC generator in /verif/engine, the SMT solvers; "
         "the trusted library contracts in /verif/contracts/trusted listed in the evidence file; "
         "library callees without a contract modify only what their arguments point to; no concurrency. ")

CLAIMED = {
 "C01": dict(
   text="Deductive proof over certGenHandler: the level loop carries a quantified invariant (sufficient <=> some listed method matches a proven factor bit), and both signing wrappers are reached only under ghostAuthed && sufficientLevel(operator list, level established by checkAuth); all 2^64 level values and lists of any length.",
   note=TRUST + "checkAuth's ghost assignments (who/which level was established) are specified by its contract; its body is verified under C04/C06 clauses where claimed. 'password' in the operator list admits any valid credential (documented behaviour).",
   design="7 (C01)"),
 "C02": dict(
   text="Deductive proof that the certificate endpoint signs only for targetUser == the user checkAuth established, that GenSSHCertFileString emits exactly one principal (the user), user type, the parsed submitted key, and that the X.509 templates carry the user as CN, the submitted key, the CA as parent, non-CA + client-auth usage (call-site assertions on x509.CreateCertificate).",
   note=TRUST + "ssh.ParseAuthorizedKey, SignCert and x509.CreateCertificate are trusted contracts (they emit what the template says). SSH extension set equality is not claimed yet.",
   design="7 (C02)"),
 "C03": dict(
   text="Bit-precise (BV64 + IEEE-754) proof that SSH validity never wraps, starts now and is at most duration/1s+1, with time.Duration.Seconds inlined from the standard library; X.509 NotBefore=now, NotAfter=now+duration at the CreateCertificate call sites; certGenHandler reaches the signers only with duration <= 24h and now+duration <= issuedAt+24h; role certificates carry exactly 45 days.",
   note=TRUST + "float64->uint64 modelled as lowered on amd64; one clock instant per request; time values within 1970..2116.",
   design="7 (C03)"),
 "C10": dict(
   text="Deductive proof that ValidatePublicKeyStrength accepts exactly the property's strong keys (RSA >= 2048 bits and e >= 65537, NIST >= 256, Ed25519) and that every signing wrapper (SSH, X.509, Kubernetes, automation, refresh) is reached only with a key for which that predicate holds; no-panic obligations (index, nil, type assertion) for the address-extension decoder and the SSH key validator.",
   note=TRUST + "Parsers (x509, ssh, asn1) are trusted to return well-shaped values (type invariant of asn1.BitString; NIST curve sizes). The cloud-role path and panics inside dependency parsers are not covered.",
   design="7 (C10)"),
 "C11": dict(
   text="Deductive proof (mathematical-int mode with no-overflow obligations) that the RFC 3779 decoder never panics, never accepts a prefix longer than 32 bits, and that a refresh request keeps the authenticated identity.",
   note=TRUST + "Round-trip equality of netblocks and the iff-membership clause are not yet under contract (declared in DESIGN.md).",
   design="7 (C11)"),
 "C13": dict(
   text="String-theory proof that CanRedirectToURL accepts only https, no query, no '..', a host equal to or a subdomain of a configured domain (exists-quantified over the list), a matching pattern when patterns are configured, nothing when unconfigured; the authorization handler redirects only to a prefix approved by that function (ghost state); same host rule for CORS origins.",
   note=TRUST + "url.Parse/Hostname and regexp.MatchString are uninterpreted trusted contracts; browsers' divergent URL parsing is out of scope.",
   design="7 (C13)"),
 "C17": dict(
   text="Deductive proof (weakest preconditions over go/ssa, SMT) that getLoginDestination returns only same-origin paths as the property defines them, "
        "for every submitted string, and that every redirect site in the package passes such a value or satisfies its own listed clause; unbounded in the input.",
   note=TRUST + "net/http form parsing (FormValue/Values.Get) and http.Redirect are trusted contracts.",
   design="7 (C17)"),
}

NOT_YET = "check not built yet in this snapshot of /verif (work in progress; see DESIGN.md section 7 for the planned contracts)"
ALL = ["C%02d" % i for i in range(1, 21)]

def main():
    hooks = subprocess.run(["git", "-C", "/repo", "log", "--format=%H %s"], capture_output=True, text=True).stdout.splitlines()
    hook_commits = [l.split()[0] for l in hooks if l.split(" ", 1)[1].startswith("verif:")]
    checks = []
    for pid in ALL:
        if pid not in CLAIMED:
            continue
        c = CLAIMED[pid]
        checks.append({
            "property_id": pid,
            "quick_cmd": "./check %s quick" % pid,
            "thorough_cmd": "./check %s thorough" % pid,
            "evidence_file": "evidence/%s.json" % pid,
            "replay_cmd_template": "./check --replay {path}",
            "engine": "verif-engine",
            "level_claimed": {"category": "proof", "text": c["text"], "design_ref": "DESIGN.md section " + c["design"]},
            "level_note": c["note"],
            "technique": c.get("technique", "contract-based deductive verification: WP/VC generation over go/ssa of /repo, contracts in //@ comment files, obligations discharged by z3/cvc5"),
        })
    na = [{"property_id": p, "reason": NOT_APPLICABLE.get(p, NOT_YET)} for p in ALL if p not in CLAIMED]
    m = {
        "version": 1,
        "setup_cmd": "./setup.sh",
        "hooks": {
            "guard": "verif",
            "enable": "-tags verif (the tag only adds comment-only zz_verif_contracts.go files; the engine reads them and overlays generated spec functions in memory)",
            "baseline_off_cmd": "cd /repo && go test -mod=mod -json -vet=off -count=1 -timeout 25m ./...",
            "source_commits": hook_commits,
            "add_only": True,
        },
        "engines": [{
            "name": "verif-engine", "path": "engine/",
            "serves_properties": sorted(CLAIMED.keys()),
            "kind_free_text": "deductive verifier for Go written for this repository: go/ssa -> loop-cut passive form -> one SMT-LIB obligation per ensures / callee precondition / loop invariant / implicit run-time check; contracts are //@ comments compiled to Go spec functions by go/types; solvers raced per obligation",
        }],
        "checks": checks,
        "not_applicable": na,
        "notes": "See DESIGN.md. known_findings.json lists recorded and fixed defects.",
    }
    json.dump(m, open(os.path.join(V, "MANIFEST.json"), "w"), indent=1)
    print("MANIFEST.json: %d checks, %d not_applicable" % (len(checks), len(na)))

NOT_APPLICABLE = {}

if __name__ == "__main__":
    main()
