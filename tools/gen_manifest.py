#!/usr/bin/env python3
"""Regenerates /verif/MANIFEST.json from the table below (kept in one place so that it stays valid)."""
import json, subprocess, os
V = os.path.dirname(os.path.dirname(os.path.abspath(__file__)))

TRUST = ("Trusted: go/types+go/ssa front end, the VC generator in /verif/engine, the SMT solvers; "
         "the trusted library contracts in /verif/contracts/trusted listed in the evidence file; "
         "library callees without a contract modify only what their arguments point to; no concurrency. ")

CLAIMED = {
 "C01": dict(
   text="Deductive proof over certGenHandler: the level loop carries a quantified invariant (sufficient <=> some listed method matches a proven factor bit), and both signing wrappers are reached only under ghostAuthed && sufficientLevel(operator list, level established by checkAuth); all 2^64 level values and lists of any length. A lemma over the constants shows that AuthTypeAny, the mask the endpoint asks checkAuth for, admits a session carrying any single factor. The CLI hand-over asks checkAuth for the level the web UI requires.",
   note=TRUST + "checkAuth's ghost assignments (who/which level was established) are specified by its contract; its body is verified under C04/C06 clauses where claimed. 'password' in the operator list admits any valid credential (documented behaviour).",
   design="7 (C01)"),
 "C02": dict(
   text="Deductive proof that the certificate endpoint signs only for targetUser == the user checkAuth established, that GenSSHCertFileString emits exactly one principal (the user), user type, the parsed submitted key, and that the X.509 templates carry the user as CN, the submitted key, the CA as parent, non-CA + client-auth usage (call-site assertions on x509.CreateCertificate). reprocessUsername returns the lower-cased (unless disabled), filter-stripped name.",
   note=TRUST + "ssh.ParseAuthorizedKey, SignCert and x509.CreateCertificate are trusted contracts (they emit what the template says). SSH extensions: the five standard ones are present and nothing that is neither standard nor configured is (quantified map contract with a loop invariant); that every configured extension is copied with its value is not claimed (map iteration completeness).",
   design="7 (C02)"),
 "C03": dict(
   text="Bit-precise (BV64 + IEEE-754) proof that SSH validity never wraps, starts now and is at most duration/1s+1, with time.Duration.Seconds inlined from the standard library; X.509 NotBefore=now, NotAfter=now+duration at the CreateCertificate call sites; certGenHandler reaches the signers only with duration <= 24h and now+duration <= issuedAt+24h; role certificates carry exactly 45 days; when the request names a duration the certificate's is at most that (time.ParseDuration as an uninterpreted function of the string). Cloud-role certificates: the template built by lib/server/aws_identity_cert starts now and ends 24 h later, and the daemon's signing callback signs the window it is given.",
   note=TRUST + "float64->uint64 modelled as lowered on amd64; one clock instant per request; time values within 1970..2116.",
   design="7 (C03)"),
 "C04": dict(
   text="Deductive proof, per consumer of signed artefacts (session/CLI tokens via getAuthInfoFromJWT, cookie re-signing, signed storage records), that acceptance implies: signature verifies under a published keymaster key, issuer and first audience are this server, the kind field is the one the consumer expects, nbf has passed (and exp for storage records); and that every verifier list handed to jwt.ParseSigned contains only asymmetric algorithms (map invariant with a quantifier over keys), so 'none'/HMAC can never be accepted. The issuer is https:// + the server's own host identity (+ port); the fields of the signed payloads are exported (JSON skips unexported ones).",
   note=TRUST + "go-jose is a trusted contract (ParseSigned rejects unlisted algorithms; Claims returns nil only for a verifying key and then fills the destination with the signed payload). The OIDC code/access-token consumers are claimed under C12. GetSigned is under contract with its goroutine and select modelled as an arbitrary received value.",
   design="7 (C04)"),
 "C05": dict(
   text="Deductive proof of the per-operation invariant behind the history property: every one of the nine sites that re-sign a session cookie with more factor bits is reached only when each new bit was verified in this request for the very user checkAuth established (ghost bit-set reset by checkAuth and extended by call-site ghost assignments on the VIP/Okta/TOTP/U2F/webauthn/bootstrap verifiers), the cookie that is upgraded belongs to that user, hardware-token challenges and bootstrap OTPs are consumed before the upgrade, an already accepted TOTP period is never evaluated again and is saved before acceptance is reported, expired bootstrap OTPs yield no hash; fresh session cookies are minted only for the user whose password was just accepted (password level), by the federated-login callback (federated level, named clause) or for the authenticated user's own unexpired CLI token (CLI level). A hardware-token challenge is verified only while unexpired; lib/vip: a push counts as approved only for the service's 'approved' status of the parsed answer, a code only when the service accepted it for one of the named user's active tokens, and the push request names the user it is later polled for. Every field of the stored profile is exported (gob skips unexported fields: the replay counter would not be stored); profiles are looked up by exact name (SQL text pinned).",
   note=TRUST + "Verdicts of the VIP/Okta services and of the u2f/webauthn/totp libraries are uninterpreted call results. Simultaneous presentation of a hardware-token challenge is covered under C16; of a bootstrap OTP (kept in the profile store, no mutex) it is not.",
   design="7 (C05)"),
 "C06": dict(
   text="Deductive proof of checkAuth against its contract: success implies the returned level intersects the endpoint's mask, the identity/level/issue time were established by a verified unexpired keymaster_auth cookie, by a keymaster-signed non-deny-listed client certificate, by an IP-restricted certificate used inside its netblocks by an automation identity whose key is not deny-listed, or by a back-end accepted password after a limiter token; non-GET requests with a foreign Origin/Referer host are refused. The signing wrappers require the ghost 'authenticated' flag that only checkAuth's success sets, and call-graph rules pin the lib/certgen signers to those wrappers. The key fingerprint is the lower-case hexadecimal SHA-256 form the deny list is written in; the logging wrapper hands the request on with the connection's peer address.",
   note=TRUST + "Effect functions covered: certificate signing, profile load/save/delete, user listing, token management, cookie minting and upgrade, OIDC token/userinfo marshalling; TLS chain verification is trusted (crypto/tls heap invariant). A handler that performs an effect through a function not under contract would escape (the call-graph rules pin the signers and the password back end only).",
   design="7 (C06)"),
 "C07": dict(
   text="Deductive proof over the LDAP authenticator with a ghost context per attempt: while no server has answered nothing is decided or written (loop invariants over the server x bind-pattern loops); the first answer is final (returned verdict == the directory's verdict); the cache record is consulted only when no server answered, only for the same user and record type, and only its comparison with the submitted password can accept; acceptance writes the hash of the very password the directory confirmed with expiry now+expirationDuration (96 h, proved at the constructor) and is the only writer (call-graph rule); rejection evicts a cached hash that matches the rejected password. GetSigned (goroutine and select modelled as an arbitrary received value) accepts a record only if it verifies under a published keymaster key as a storage record, is unexpired and was signed for the looked-up user. checkUserPassword returns exactly the back end's verdict, and checkAuth/login establish the identity the back end accepted. authutil.CheckLDAPUserPassword binds as the user with the submitted password, accepts only after a successful bind and classifies a bind refused with 'Invalid Credentials' as an answer; DeleteSigned/UpsertSigned return nil only after committing their transaction and name the record they were asked for. The SQL text of the record statements and the one-record-per-user-and-type constraint of the cache schema are pinned.",
   note=TRUST + "Directory answers, Argon2 and the SQL layer are uninterpreted call results; htpassword/command back ends are covered only through the pwauth interface verdict; the lag between primary and cache databases is C15 territory.",
   design="7 (C07)"),
 "C08": dict(
   text="Deductive proof, per handler that reads or changes a profile or administers users, of the effect preconditions: LoadUserProfile/SaveUserProfile/DeleteUserProfile and the token-management handlers are reached only for the user checkAuth established, or for another user when the ghost admin flag was set by IsAdminUser for that established user and (for token changes/registrations) the established session carries the U2F bit; the user-administration and bootstrap-OTP handlers require the admin flag; automation certificates are signed only after isAutomationAdmin/IsAdminUser accepted the established user and only for a name in the configured automation lists; the admin cache returns a cached verdict only while younger than five minutes unless the directory failed. The administrator cache is written only by the administrator check (call-graph rule). Profiles are looked up, replaced and deleted by exact user name (SQL text pinned).",
   note=TRUST + "Group membership lookups (getUserGroups: LDAP/gitdb) are the only assumed verdicts; _IsAdminUser (both directions) and isAutomationUser (soundness) are verified against 'configured name or member of a configured group'. The five-minute rule is proved on admincache.Cache.Get against the ghost clock. Templates rendering a profile are not modelled.",
   design="7 (C08)"),
 "C12": dict(
   text="Deductive proof over the token, authorization and userinfo handlers: tokens are marshalled only after the code verified under a keymaster key with the code kind, unexpired, same redirect URI, and the caller was authenticated as the client bound into the code by secret or (secret-less client that may use PKCE) by a verifier matching the bound challenge; the ID token carries this issuer, the code's client as the only audience, the code's subject, the code's nonce, an expiry no later than the code's 16 h bound; the access token carries that subject and the userinfo audience; userinfo answers only for a verified access token of the access kind whose audience list contains the userinfo audience, with the subject in it. The PKCE verdict follows the method bound into the code; the kid header is the fingerprint of the signing key.",
   note=TRUST + "go-jose signing/verification and AES-GCM sealing of the PKCE challenge are trusted contracts; the JWKS handler's publication is covered by C04's published-key predicate.",
   design="7 (C12)"),
 "C09": dict(
   text="Deductive proof that both certificate-signing wrappers are reached only with a loaded CA signer; the CA signers are written only under state.Mutex (lock-set obligation at every write) and only by loadSignersFromPemData, which requires the mutex held and Signer == nil and leaves Signer nil on every error path; unsealCA reaches it within the critical section in which it tested Signer == nil (taking the mutex forgets what was known about the signers, so a re-acquired lock does not carry the test), and only with the PGP plaintext for the submitted passphrase; the injection handler reaches unsealCA only with a verified client-certificate chain; /readyz writes 200 exactly when the signer is loaded; after loading, the published key list contains both signing keys (nested-loop invariants). /readyz writes its status before any body; the Ed25519 CA is loaded only from its plaintext for the submitted passphrase; every cookie, record, code and token is signed with the loaded (non-nil) CA key and nothing else builds a JOSE signer.",
   note=TRUST + "PGP decryption is an assumed contract (wrong passphrase => error). 'Exactly one transition under concurrent injections' is argued by mutual exclusion (trusted sync.Mutex contract), not by exploring interleavings. Session-cookie and token signing while sealed fail inside go-jose on the nil key (not under contract). The start-up load (before any listener) is exempted from the lock obligation by a named clause.",
   design="7 (C09)"),
 "C10": dict(
   text="Deductive proof that ValidatePublicKeyStrength accepts exactly the property's strong keys (RSA >= 2048 bits and e >= 65537, NIST >= 256, Ed25519) and that every signing wrapper (SSH, X.509, Kubernetes, automation, refresh) is reached only with a key for which that predicate holds; no-panic obligations (index, nil, type assertion) for the address-extension decoder and the SSH key validator. The two readers of the RFC 3779 extension are panic-free for every extension content; the X.509, SSH and automation issuing functions are free of failing type assertions, nil call results dereferenced, bad indices/slices and divisions by zero; on the automation paths an unusable key is the client's error (4xx). The cloud-role request handler is free of failing type assertions, nil call results dereferenced, bad indices/slices.",
   note=TRUST + "Parsers (x509, ssh, asn1) are trusted to return well-shaped values (type invariant of asn1.BitString; NIST curve sizes). The cloud-role path and panics inside dependency parsers are not covered.",
   design="7 (C10)"),
 "C11": dict(
   text="Deductive proof (mathematical-int mode with no-overflow obligations) of the RFC 3779 codec: the decoder never panics, accepts exactly prefix lengths 0..32, yields octet j of the encoded block while 8*j < length and 0 beyond, and a /length mask; the encoder emits the mask's length and the first ceil(length/8) IPv4 octets (loop invariants over both copy loops); a lemma function over the two contracts proves that a canonical IPv4 netblock is read back with the same four octets and prefix length. The IP-certificate authenticator hands the TCP peer address (r.RemoteAddr) to the netblock test, and a refresh request keeps the authenticated identity. The verdict of VerifyIPRestrictedX509CertIP is verified in both directions against its definition (IPv4 families parsed from the first delegation extension, decoder, net.IPNet.Contains) and ExtractIPNetsFromIPRestrictedX509 returns only such blocks; an automation certificate (issued by the role-requesting CA) never authenticates as a keymaster user certificate. The logging wrapper hands the request on with the connection's peer address unchanged.",
   note=TRUST + "The verdict of net.IPNet.Contains inside VerifyIPRestrictedX509CertIP (the iff-membership clause) is an assumed contract of that function (listed); asn1.Marshal/Unmarshal and x509 extension transport are trusted to round-trip. Minting: as many netblocks as requestor_netblock values were submitted (loop invariants), refresh: the very netblock list read from the presented certificate.",
   design="7 (C11)"),
 "C13": dict(
   text="String-theory proof that CanRedirectToURL accepts only https, no query, no '..', a host equal to or a subdomain of a configured domain (exists-quantified over the list), a matching pattern when patterns are configured, nothing when unconfigured; the authorization handler redirects only to a prefix approved by that function (ghost state); same host rule for CORS origins. A client configuration is returned only for the id asked for. Domains, patterns and client id are read from their documented configuration keys.",
   note=TRUST + "url.Parse/Hostname are uninterpreted trusted contracts, operator-configured redirect patterns (non-constant regexps) are uninterpreted; browsers' divergent URL parsing is out of scope.",
   design="7 (C13)"),
 "C14": dict(
   text="Deductive proof with a linear ghost token: checkUserPassword (the only caller of the back end, by a call-graph rule) requires a token that only a true rate.Limiter.Allow() grants, at both entry points (login form and basic-auth); validateUserTOTP evaluates a code only if two seconds have passed since the user's last check and no lock-out is in force, counts failures (they accumulate while the previous failure is less than a day old), locks out for an hour at every fifth failure and resets on success. The limiter is built after the configuration was parsed, from the burst and rate the state then holds. A counted TOTP failure is dated now; burst and rate are read from their documented configuration keys.",
   note=TRUST + "The numeric rate of the token bucket is rate.Limiter's; the TOTP gate is judged inside one critical section (lock-aware clauses shared with C16), other interleavings are not explored.",
   design="7 (C14)"),
 "C16": dict(
   text="Deductive lock-set proof: every read and write of the shared session/challenge maps (localAuthData, vipPushCookie, pendingOauth2 under state.Mutex; totpLocalRateLimit under its own mutex; the Okta session cache under its mutex) and of their contents happens with the protecting mutex held (one obligation per access, in every function of /repo that touches them, found by a sweep over go/ssa); taking a mutex forgets what was known about the state it protects, so check-then-act sequences are proved only inside one critical section: the TOTP two-second gate is tested and published in the critical section entered last before a code is evaluated, and a hardware-token challenge is taken out of the shared map in the critical section that reads it, before the answer is verified (so a second presentation, however interleaved, finds none). An accepted TOTP code leaves the attempt's stamp in the gate's table. Profile write-back: one structural obligation per function that calls SaveUserProfile (it would have to write back inside the critical section of its load); /repo has no such section, so all fourteen existing writers fail and are recorded as known findings (history replayed on the real code), and any further writer is a violation. A shared (read) acquisition of an RWMutex allows reads of what it guards, not writes.",
   note=TRUST + "sync.Mutex is a trusted contract (held flag per goroutine; callees are assumed lock-balanced); the configuration loader is exempted by a named clause (state not yet shared). NOT covered, and declared out of reach of per-function contracts: simultaneous presentation of the one-time values that are not kept in a mutex-protected map (bootstrap OTP in the profile store, the OAuth2 state whose single use the provider enforces), unlocked reads of state.Signer.",
   design="7 (C16)"),
 "C17": dict(
   text="Deductive proof (weakest preconditions over go/ssa, SMT) that getLoginDestination returns only same-origin paths as the property defines them, "
        "for every submitted string, and that every redirect site in the package passes such a value or satisfies its own listed clause; unbounded in the input.",
   note=TRUST + "net/http form parsing (FormValue/Values.Get) and http.Redirect are trusted contracts.",
   design="7 (C17)"),
 "C18": dict(
   text="Deductive proof, at every conversion of a non-constant string to html/template.HTML in cmd/keymasterd (the only way around the template engine's contextual escaping; the sites are found by a sweep over go/ssa, so a new one is a new obligation), that the produced markup is one of two fixed elements whose only variable part is an attribute value free of double quotes and angle brackets (regular-expression membership decided by the string solvers; Go regexps are translated exactly); conversions to the other bypass types (JS, JSStr, HTMLAttr, CSS, URL, Srcset) are forbidden outright.",
   note=TRUST + "html/template's auto-escaping of ordinary fields, HTMLEscapeString and the base64 alphabet are trusted contracts; pages written without the template engine (fmt.Fprintf of plain-text/JSON bodies) are not HTML and are not covered.",
   design="7 (C18)"),
 "C20": dict(
   text="Deductive proof with a ghost 'signed but not yet published' flag: on every path of the four signing functions of cmd/keymasterd (user X.509, user SSH, role-requesting, cloud-role) a 200 response header is written, or the DER returned, only after the certificate signed in this request was handed to the event notifier, and the PEM body is encoded from the very DER that was published; call-graph rules pin every x509.CreateCertificate / ssh SignCert call in /repo to those functions (or named start-up code); the six publish entry points and everything they call in /repo contain no blocking channel operation (structural sweep) and use the subscriber table only under its mutex; the monitoring daemon's event loop saves a snapshot only if no event was recorded since it was taken (loop invariant over the select loop with a ghost dirty flag). BOUNDED stand-in, reported apart and never counted as proved: save -> load of the per-user history keeps order and drops only expired entries, run on the real functions for every history of <= 5 events (<= 4 in the quick tier). Publishers leave the subscriber table as they found it and their fan-out loops are exhaustive. The per-subscriber writer does no socket I/O under the notifier mutex; the bounded history check also runs the expiry pass of the restarted daemon.",
   note=TRUST + "Delivery to a subscriber (TCP, JSON encoding) and the SSH wire encoding returned to the requester are not under contract; publication of web/service-provider login events is not claimed. The doubly linked history lists have no reachability predicate in the contract language: that clause is bounded, not proved.",
   design="7 (C20)"),
 "C19": dict(
   text="Deductive proof that the certificate request built by lib/client/twofa carries exactly the serialisation (PKIX DER in a PUBLIC KEY PEM block, or the SSH authorized-key line) of signer.Public() of the signer it was given (ghost chain over MarshalPKIXPublicKey / pem.EncodeToMemory / ssh.NewPublicKey / MarshalAuthorizedKey down to the request body); call-graph rules pin every private-key serialiser in /repo (PKCS1, PKCS8, OpenSSH) to the four client functions that write key files and to the server's configuration generator - none in code that builds requests; each of those writes the key file through ioutil.WriteFile with mode 0600 (call-site clauses; client code has no os.Create/os.OpenFile); the agent clean-up examines every identity the agent lists and removes each certificate carrying the label (ghost 'must remove' flag in the loop invariant) before the only Add call; once a key line is accepted the only type-dependent refusal is an Ed25519 key without an Ed25519 CA; the client generates only P-256/P-384 (plus RSA, Ed25519) keys and the server's key-line pattern accepts the authorized-key line of each of those types (regular-expression inclusion decided exactly by the engine, constant-pattern regexp.MatchString given its exact meaning).",
   note=TRUST + "That bytes reach only the intended sink (the data flow through bytes.Buffer/multipart inside createKeyBodyRequest) is argued by the absence of private-key serialisers, not by a taint proof; the FIDO/U2F device library (github.com/flynn/u2f/u2fhid) does not type-check in this sandbox (cgo/libudev) and is a body-less stub; RSA key size and agent lifetimes are not claimed.",
   design="7 (C19)"),
 "C15": dict(
   text="Deductive proof (a) that every SaveUserProfile call in cmd/keymasterd is reached only with a profile loaded in this request, for the same user, from the primary (ghost 'from cache' flag set by LoadUserProfile): while the primary is unreachable nothing that would change a profile is attempted; (b) over copyDBIntoSQLite with a ghost transaction handle: the only statements issued directly on a database are SELECTs on the source; every insert statement is prepared on the one transaction begun on the destination, after that transaction emptied both mirrored tables; nothing is prepared or executed on the destination outside it; every copied row is written with the columns it was read with, in order; the commit happens only after both tables were emptied, never after a row that could not be read or written, and never while a finished row iteration has not been checked with Err() - so a completed copy mirrors additions, changes and deletions, and (database/sql transactions being atomic, trusted) a copy that fails at any statement leaves the previous content. The four writers return nil only after committing; the storage functions read and write under the name (type, expiry) given; the goroutines that ask the primary report only query results, so an unreachable primary ends in the cache branch. SQL text and cache schema pinned; stored fields exported.",
   note=TRUST + "NOT covered, declared out of reach of contracts on /repo's functions: the gob encode/decode round trip of a profile (encoding/gob), the SQL engines and their crash behaviour (statement-level fault injection is another technique), cache-first reads while the primary is reachable.",
   design="7 (C15)"),
}

NOT_YET = "check not built yet in this snapshot of /verif (work in progress; see DESIGN.md section 7 for the planned contracts)"
ALL = ["C%02d" % i for i in range(1, 21)]

def main():
    hooks = subprocess.run(["git", "-C", "/repo", "log", "--format=%H %s"], capture_output=True, text=True).stdout.splitlines()
    hook_commits = [l.split()[0] for l in hooks if l.split(" ", 1)[1].startswith("verif:")]
    checks = []
    for pid in ALL:
        if pid not in CLAIMED:
            continue
        c = CLAIMED[pid]
        checks.append({
            "property_id": pid,
            "quick_cmd": "./check %s quick" % pid,
            "thorough_cmd": "./check %s thorough" % pid,
            "evidence_file": "evidence/%s.json" % pid,
            "replay_cmd_template": "./check --replay {path}",
            "engine": "verif-engine",
            "level_claimed": {"category": "proof", "text": c["text"], "design_ref": "DESIGN.md section " + c["design"]},
            "level_note": c["note"],
            "technique": c.get("technique", "contract-based deductive verification: WP/VC generation over go/ssa of /repo, contracts in //@ comment files, obligations discharged by z3/cvc5"),
        })
    na = [{"property_id": p, "reason": NOT_APPLICABLE.get(p, NOT_YET)} for p in ALL if p not in CLAIMED]
    m = {
        "version": 1,
        "setup_cmd": "./setup.sh",
        "hooks": {
            "guard": "verif",
            "enable": "-tags verif (the tag only adds comment-only zz_verif_contracts.go files; the engine reads them and overlays generated spec functions in memory)",
            "baseline_off_cmd": "cd /repo && go test -mod=mod -json -vet=off -count=1 -timeout 25m ./...",
            "source_commits": hook_commits,
            "add_only": True,
        },
        "engines": [{
            "name": "verif-engine", "path": "engine/",
            "serves_properties": sorted(CLAIMED.keys()),
            "kind_free_text": "deductive verifier for Go written for this repository: go/ssa -> loop-cut passive form -> one SMT-LIB obligation per ensures / callee precondition / loop invariant / implicit run-time check; contracts are //@ comments compiled to Go spec functions by go/types; solvers raced per obligation",
        }],
        "checks": checks,
        "not_applicable": na,
        "notes": "See DESIGN.md. known_findings.json lists recorded and fixed defects.",
    }
    json.dump(m, open(os.path.join(V, "MANIFEST.json"), "w"), indent=1)
    print("MANIFEST.json: %d checks, %d not_applicable" % (len(checks), len(na)))

NOT_APPLICABLE = {}

if __name__ == "__main__":
    main()
