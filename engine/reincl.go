package main

import (
	"regexp/syntax"
	"sort"
	"strings"
)

// Regular-expression inclusion, decided by the engine itself.
//
// The SMT solvers do not decide  x in A  =>  x in B  when B needs determinising (counted loops after an
// optional separator, as in the server's key-line pattern): the negated membership explodes. For two Go
// patterns that are anchored at both ends, inclusion of the languages over bytes is decided here by an
// on-the-fly subset construction over the NFA programs regexp/syntax compiles (product of A's state sets with
// B's state sets, byte classes from both programs); when L(A) is included in L(B), the valid lemma
//   (=> (str.in_re s A) (str.in_re s B))
// is added to every script in which both memberships occur on the same string term. Nothing is added when
// inclusion does not hold or a pattern is outside the supported fragment.

var goReBySMT = map[string]string{} // SMT text of a translated pattern -> the Go pattern

func rememberGoRe(pattern, smt string) { goReBySMT[smt] = pattern }

type nfaProg struct {
	p *syntax.Prog
}

func compileAnchored(pattern string) (*nfaProg, bool) {
	if !strings.HasPrefix(pattern, "^") || !strings.HasSuffix(pattern, "$") || strings.HasSuffix(pattern, `\$`) {
		return nil, false
	}
	re, err := syntax.Parse(pattern, syntax.Perl)
	if err != nil {
		return nil, false
	}
	p, err := syntax.Compile(re.Simplify())
	if err != nil {
		return nil, false
	}
	for _, in := range p.Inst {
		switch in.Op {
		case syntax.InstEmptyWidth:
			if syntax.EmptyOp(in.Arg)&^(syntax.EmptyBeginText|syntax.EmptyEndText) != 0 {
				return nil, false // word boundaries, line anchors: not supported
			}
		case syntax.InstRune, syntax.InstRune1:
			if syntax.Flags(in.Arg)&syntax.FoldCase != 0 {
				return nil, false
			}
		}
	}
	return &nfaProg{p}, true
}

// closure of a set of pcs; begin / end say whether the position is the start / the end of the text.
func (n *nfaProg) closure(pcs []int, begin, end bool) []int {
	seen := map[int]bool{}
	var out []int
	var visit func(pc int)
	visit = func(pc int) {
		if seen[pc] {
			return
		}
		seen[pc] = true
		in := n.p.Inst[pc]
		switch in.Op {
		case syntax.InstAlt, syntax.InstAltMatch:
			visit(int(in.Out))
			visit(int(in.Arg))
		case syntax.InstCapture, syntax.InstNop:
			visit(int(in.Out))
		case syntax.InstEmptyWidth:
			op := syntax.EmptyOp(in.Arg)
			if (op&syntax.EmptyBeginText != 0 && !begin) || (op&syntax.EmptyEndText != 0 && !end) {
				return
			}
			visit(int(in.Out))
		case syntax.InstFail:
		default:
			out = append(out, pc)
		}
	}
	for _, pc := range pcs {
		visit(pc)
	}
	sort.Ints(out)
	return out
}

func (n *nfaProg) accepts(set []int) bool {
	for _, pc := range set {
		if n.p.Inst[pc].Op == syntax.InstMatch {
			return true
		}
	}
	return false
}

func instMatchesByte(in *syntax.Inst, b rune) bool {
	switch in.Op {
	case syntax.InstRune1:
		return in.Rune[0] == b
	case syntax.InstRune:
		for i := 0; i+1 < len(in.Rune); i += 2 {
			if in.Rune[i] <= b && b <= in.Rune[i+1] {
				return true
			}
		}
		if len(in.Rune) == 1 {
			return in.Rune[0] == b
		}
		return false
	case syntax.InstRuneAny:
		return true
	case syntax.InstRuneAnyNotNL:
		return b != '\n'
	}
	return false
}

func (n *nfaProg) step(set []int, b rune) []int {
	var next []int
	for _, pc := range set {
		in := &n.p.Inst[pc]
		if instMatchesByte(in, b) {
			next = append(next, int(in.Out))
		}
	}
	return next
}

func keyOf(a, b []int) string {
	var sb strings.Builder
	for _, x := range a {
		sb.WriteString(string(rune(x + 1)))
	}
	sb.WriteString("|")
	for _, x := range b {
		sb.WriteString(string(rune(x + 1)))
	}
	return sb.String()
}

// goRegexIncluded: every byte string matched by pattern a (anchored) is matched by pattern b (anchored).
// ok is false when the question is outside the supported fragment or the search exceeds its budget.
func goRegexIncluded(a, b string) (included, ok bool) {
	na, ok1 := compileAnchored(a)
	nb, ok2 := compileAnchored(b)
	if !ok1 || !ok2 {
		return false, false
	}
	type pair struct {
		sa, sb []int
		begin  bool
	}
	start := pair{[]int{na.p.Start}, []int{nb.p.Start}, true}
	queue := []pair{start}
	seen := map[string]bool{}
	budget := 200000
	for len(queue) > 0 {
		cur := queue[0]
		queue = queue[1:]
		// at this position the text may end
		if na.accepts(na.closure(cur.sa, cur.begin, true)) && !nb.accepts(nb.closure(cur.sb, cur.begin, true)) {
			return false, true
		}
		ca := na.closure(cur.sa, cur.begin, false)
		cb := nb.closure(cur.sb, cur.begin, false)
		if len(ca) == 0 {
			continue
		}
		for c := rune(0); c < 256; c++ {
			nxa := na.step(ca, c)
			if len(nxa) == 0 {
				continue
			}
			nxb := nb.step(cb, c)
			sort.Ints(nxa)
			sort.Ints(nxb)
			nxa, nxb = dedupInts(nxa), dedupInts(nxb)
			k := keyOf(nxa, nxb)
			if seen[k] {
				continue
			}
			seen[k] = true
			budget--
			if budget < 0 {
				return false, false
			}
			queue = append(queue, pair{nxa, nxb, false})
		}
	}
	return true, true
}

func dedupInts(a []int) []int {
	out := a[:0]
	for i, x := range a {
		if i == 0 || x != a[i-1] {
			out = append(out, x)
		}
	}
	return out
}

// regexInclusionLemmas scans a script for memberships of one string term in two translated Go patterns and
// adds the inclusion lemmas that hold.
func regexInclusionLemmas(text string) []string {
	type occ struct{ subj, re string }
	var occs []occ
	for re := range goReBySMT {
		from := 0
		needle := " " + re + ")"
		for {
			i := strings.Index(text[from:], needle)
			if i < 0 {
				break
			}
			end := from + i
			// walk back to "(str.in_re "
			j := strings.LastIndex(text[:end], "(str.in_re ")
			if j >= 0 {
				subj := text[j+len("(str.in_re ") : end]
				if balancedTerm(subj) {
					occs = append(occs, occ{subj, re})
				}
			}
			from = end + len(needle)
		}
	}
	bySubj := map[string]map[string]bool{}
	for _, o := range occs {
		if bySubj[o.subj] == nil {
			bySubj[o.subj] = map[string]bool{}
		}
		bySubj[o.subj][o.re] = true
	}
	var subjs []string
	for s := range bySubj {
		subjs = append(subjs, s)
	}
	sort.Strings(subjs)
	var out []string
	for _, s := range subjs {
		var res []string
		for r := range bySubj[s] {
			res = append(res, r)
		}
		sort.Strings(res)
		for _, ra := range res {
			for _, rb := range res {
				if ra == rb {
					continue
				}
				if inc, ok := goRegexIncluded(goReBySMT[ra], goReBySMT[rb]); ok && inc {
					out = append(out, "(assert (=> (str.in_re "+s+" "+ra+") (str.in_re "+s+" "+rb+")))")
				}
			}
		}
	}
	return out
}

func balancedTerm(s string) bool {
	d := 0
	inStr := false
	for i := 0; i < len(s); i++ {
		c := s[i]
		if c == '"' {
			inStr = !inStr
		}
		if inStr {
			continue
		}
		if c == '(' {
			d++
		}
		if c == ')' {
			d--
			if d < 0 {
				return false
			}
		}
	}
	return d == 0 && !inStr && !strings.Contains(s, " ") || (d == 0 && !inStr && strings.HasPrefix(s, "("))
}
