package main

// Inferred frame of un-contracted /repo callees that are too large to inline: a sound static
// over-approximation of the heap components a function (and everything it calls) may write.
// A call to such a function forgets exactly those components (at every reference) instead of the
// whole heap.

import (
	"go/types"
	"strings"

	"golang.org/x/tools/go/ssa"
)

type compDesc struct {
	kind  byte // 'F' field, 'E' slice/array elements, 'D' deref cell, 'M' map, 'G' global
	t     types.Type
	field int
	g     *ssa.Global
}

type modSet struct {
	all     bool
	descs   map[string]compDesc
	named   []string // components named by contracts of callees
	hasExpr bool     // some callee contract names locations by expression: globals and ghost state may change
	boxed   bool     // some callee writes through pointers boxed in interface slices of unknown origin
	ghosts      map[string]bool // ghost variables assigned by contracts of callees ("pkgpath.name")
	boxedParams []int // parameters of this function (slices of interfaces) whose boxed pointers are written through
}

func (m *modSet) add(d compDesc) {
	key := string(d.kind) + "|"
	if d.g != nil {
		key += d.g.String()
	} else {
		key += typeKey(d.t)
	}
	if d.kind == 'F' {
		key += "|" + string(rune('0'+d.field%10)) + string(rune('0'+d.field/10))
	}
	m.descs[key] = d
}

func (m *modSet) union(o *modSet) {
	if o.all {
		m.all = true
	}
	if o.hasExpr {
		m.hasExpr = true
	}
	if o.boxed {
		m.boxed = true
	}
	m.named = append(m.named, o.named...)
	for k := range o.ghosts {
		if m.ghosts == nil {
			m.ghosts = map[string]bool{}
		}
		m.ghosts[k] = true
	}
	for k, v := range o.descs {
		m.descs[k] = v
	}
}

func (m *modSet) addObject(t types.Type) {
	switch u := t.Underlying().(type) {
	case *types.Struct:
		if isTimeType(t) {
			m.add(compDesc{kind: 'D', t: t})
			return
		}
		for i := 0; i < u.NumFields(); i++ {
			m.add(compDesc{kind: 'F', t: t, field: i})
		}
	case *types.Array:
		m.add(compDesc{kind: 'E', t: u.Elem()})
	default:
		m.add(compDesc{kind: 'D', t: t})
	}
}

// addPointee: an external callee may write the object a pointer-like argument refers to.
func (m *modSet) addPointee(t types.Type) {
	switch u := t.Underlying().(type) {
	case *types.Pointer:
		if !isSyncType(u.Elem()) {
			m.addObject(u.Elem())
		}
	case *types.Slice:
		if isStringType(u.Elem()) {
			return // assumption: library callees do not write the elements of []string arguments
		}
		m.add(compDesc{kind: 'E', t: u.Elem()})
	case *types.Map:
		m.add(compDesc{kind: 'M', t: t})
	case *types.Signature:
		m.all = true
	}
}

// rootStore: the component written by a store through addr.
func (m *modSet) rootStore(addr ssa.Value) {
	v := addr
	for {
		switch x := v.(type) {
		case *ssa.FieldAddr:
			if isInterior(x.X) {
				v = x.X
				continue
			}
			st := x.X.Type().Underlying().(*types.Pointer).Elem()
			if isTimeType(st) {
				m.add(compDesc{kind: 'D', t: st})
			} else {
				m.add(compDesc{kind: 'F', t: st, field: x.Field})
			}
			return
		case *ssa.IndexAddr:
			switch bt := x.X.Type().Underlying().(type) {
			case *types.Slice:
				m.add(compDesc{kind: 'E', t: bt.Elem()})
				return
			case *types.Pointer:
				if isInterior(x.X) {
					v = x.X
					continue
				}
				m.add(compDesc{kind: 'E', t: bt.Elem().Underlying().(*types.Array).Elem()})
				return
			}
			return
		case *ssa.Global:
			m.add(compDesc{kind: 'G', g: x})
			return
		default:
			if pt, ok := v.Type().Underlying().(*types.Pointer); ok {
				m.addObject(pt.Elem())
			}
			return
		}
	}
}

func isInterior(v ssa.Value) bool {
	switch v.(type) {
	case *ssa.FieldAddr, *ssa.IndexAddr, *ssa.Global:
		return true
	}
	return false
}

func (eng *Engine) modSetOf(fn *ssa.Function) *modSet {
	if eng.modSets == nil {
		eng.modSets = map[*ssa.Function]*modSet{}
		eng.modBusy = map[*ssa.Function]bool{}
	}
	if m, ok := eng.modSets[fn]; ok {
		return m
	}
	m := &modSet{descs: map[string]compDesc{}}
	if eng.modBusy[fn] {
		// recursion: be conservative
		m.all = true
		return m
	}
	if len(fn.Blocks) == 0 {
		m.all = true
		return m
	}
	eng.modBusy[fn] = true
	defer func() { eng.modBusy[fn] = false }()
	for _, b := range fn.Blocks {
		for _, in := range b.Instrs {
			switch x := in.(type) {
			case *ssa.Store:
				// writes into objects this very function allocated do not change any object that
				// existed before the call
				if freshRoot(x.Addr, 0) {
					continue
				}
				m.rootStore(x.Addr)
			case *ssa.MapUpdate:
				if freshRoot(x.Map, 0) {
					continue
				}
				m.add(compDesc{kind: 'M', t: x.Map.Type()})
			case *ssa.Call:
				eng.modCall(m, fn, &x.Call)
			case *ssa.Defer:
				eng.modCall(m, fn, &x.Call)
			case *ssa.MakeClosure:
				// a closure created here may run later inside a callee: include its effects
				if cf, ok := x.Fn.(*ssa.Function); ok {
					m.union(eng.modSetOf(cf))
				}
			}
		}
	}
	if m.boxed {
		for _, b := range fn.Blocks {
			for _, in := range b.Instrs {
				if mi, ok := in.(*ssa.MakeInterface); ok {
					if pt, ok := mi.X.Type().Underlying().(*types.Pointer); ok && !freshRoot(mi.X, 0) {
						m.addObject(pt.Elem())
					}
				}
			}
		}
	}
	eng.modSets[fn] = m
	return m
}

func (eng *Engine) modCall(m *modSet, fn *ssa.Function, cc *ssa.CallCommon) {
	if cc.IsInvoke() {
		key := "(" + typeKey(cc.Value.Type()) + ")." + cc.Method.Name()
		if sp, ok := eng.specs[key]; ok {
			eng.modSpec(m, fn, sp, cc)
			return
		}
		for _, a := range cc.Args {
			eng.modArg(m, a)
		}
		return
	}
	switch cv := cc.Value.(type) {
	case *ssa.Builtin:
		switch cv.Name() {
		case "delete":
			m.add(compDesc{kind: 'M', t: cc.Args[0].Type()})
		case "copy":
			if sl, ok := cc.Args[0].Type().Underlying().(*types.Slice); ok {
				m.add(compDesc{kind: 'E', t: sl.Elem()})
			}
		case "append":
			// appends into a fresh array in this model
		}
		return
	case *ssa.Function:
		if eng.isGhostOrSpec(cv) {
			return
		}
		if sp := eng.specForFn(cv); sp != nil {
			if !sp.ModAll && !sp.ModNone && !sp.Trusted && !hasModifies(sp) && len(cv.Blocks) > 0 {
				cm := eng.modSetOf(cv)
				m.union(cm)
				for _, bi := range cm.boxedParams {
					if bi < len(cc.Args) {
						eng.boxedArg(m, fn, cc.Args[bi])
					}
				}
				m.addGhostSets(sp)
				return
			}
			eng.modSpec(m, fn, sp, cc)
			return
		}
		if len(cv.Blocks) > 0 && cv.Pkg != nil && eng.ld.inRepo(cv.Pkg.Pkg.Path()) {
			cm := eng.modSetOf(cv)
			m.union(cm)
			for _, bi := range cm.boxedParams {
				if bi < len(cc.Args) {
					eng.boxedArg(m, fn, cc.Args[bi])
				}
			}
			return
		}
		for _, a := range cc.Args {
			eng.modArg(m, a)
		}
		return
	case *ssa.MakeClosure:
		if cf, ok := cv.Fn.(*ssa.Function); ok {
			m.union(eng.modSetOf(cf))
			return
		}
	}
	// dynamic call of an unknown function value
	m.all = true
}

func (eng *Engine) isGhostOrSpec(fn *ssa.Function) bool {
	return strings.Contains(eng.prog.Fset.Position(fn.Pos()).Filename, "zz_verif_spec_gen")
}

func (eng *Engine) modArg(m *modSet, a ssa.Value) {
	if mi, ok := a.(*ssa.MakeInterface); ok {
		m.addPointee(mi.X.Type())
		return
	}
	// a function value handed to a library: the library may call it, nothing more
	switch fv := a.(type) {
	case *ssa.MakeClosure:
		if cf, ok := fv.Fn.(*ssa.Function); ok {
			m.union(eng.modSetOf(cf))
			return
		}
	case *ssa.Function:
		if len(fv.Blocks) > 0 {
			m.union(eng.modSetOf(fv))
			return
		}
	}
	m.addPointee(a.Type())
}

// modSpec: effects of a contracted callee as its contract states them.
func (eng *Engine) modSpec(m *modSet, fn *ssa.Function, sp *FuncSpec, cc *ssa.CallCommon) {
	if sp.ModAll || (!sp.ModNone && !sp.Trusted && !hasModifies(sp)) {
		m.all = true
		return
	}
	m.addGhostSets(sp)
	if hasModifies(sp) {
		if len(sp.ModComps) > 0 {
			m.named = append(m.named, sp.ModComps...)
		}
		for _, c := range sp.Clauses {
			if c.Kind != KModifies {
				continue
			}
			t := strings.TrimSpace(c.Text)
			switch {
			case strings.HasPrefix(t, "pointees("):
				// writes through the pointers boxed in a []interface{} argument
				name := t[len("pointees(") : len(t)-1]
				done := false
				for i, pn := range sp.ParamNames {
					if pn == name && i < len(cc.Args) {
						eng.boxedArg(m, fn, cc.Args[i])
						done = true
					}
				}
				if !done {
					m.boxed = true
				}
				continue
			case strings.HasPrefix(t, "elems("), strings.HasPrefix(t, "map("), strings.HasPrefix(t, "ptr("):
				t = t[strings.Index(t, "(")+1 : len(t)-1]
			}
			// root identifier of the location expression
			root := t
			for i, r := range t {
				if !(r == '_' || r >= 'a' && r <= 'z' || r >= 'A' && r <= 'Z' || r >= '0' && r <= '9') {
					root = t[:i]
					break
				}
			}
			found := false
			for i, pn := range sp.ParamNames {
				if pn == root && i < len(cc.Args) {
					eng.modArg(m, cc.Args[i])
					found = true
				}
			}
			if cc.IsInvoke() && len(sp.ParamNames) > 0 && sp.ParamNames[0] == root {
				m.addPointee(cc.Value.Type())
				found = true
			}
			if !found {
				m.hasExpr = true // a global or ghost variable
			}
		}
	}
}

func hasGhostSet(sp *FuncSpec) bool {
	for _, c := range sp.Clauses {
		if c.Kind == KGhostSet {
			return true
		}
	}
	return false
}

// freshRoot: the address is inside an object allocated by the enclosing function itself.
func freshRoot(v ssa.Value, depth int) bool {
	if depth > 8 {
		return false
	}
	switch x := v.(type) {
	case *ssa.Alloc, *ssa.MakeSlice, *ssa.MakeMap:
		return true
	case *ssa.FieldAddr:
		return freshRoot(x.X, depth+1)
	case *ssa.IndexAddr:
		return freshRoot(x.X, depth+1)
	case *ssa.Slice:
		return freshRoot(x.X, depth+1)
	case *ssa.Call:
		if b, ok := x.Call.Value.(*ssa.Builtin); ok && b.Name() == "append" {
			return true // modelled as a fresh backing array
		}
	case *ssa.Phi:
		for _, e := range x.Edges {
			if e == ssa.Value(x) {
				continue
			}
			if !freshRoot(e, depth+1) {
				return false
			}
		}
		return true
	}
	return false
}

// boxedArg: a callee writes through the pointers boxed in the interface slice v.
func (eng *Engine) boxedArg(m *modSet, fn *ssa.Function, v ssa.Value) {
	switch x := v.(type) {
	case *ssa.Parameter:
		for i, p := range fn.Params {
			if p == x {
				m.boxedParams = append(m.boxedParams, i)
				return
			}
		}
	case *ssa.Slice:
		if al, ok := x.X.(*ssa.Alloc); ok {
			// the variadic pack built at this call site: find what was boxed into it
			for _, b := range fn.Blocks {
				for _, in := range b.Instrs {
					st, ok := in.(*ssa.Store)
					if !ok {
						continue
					}
					ia, ok := st.Addr.(*ssa.IndexAddr)
					if !ok || ia.X != ssa.Value(al) {
						continue
					}
					if mi, ok := st.Val.(*ssa.MakeInterface); ok {
						if pt, ok := mi.X.Type().Underlying().(*types.Pointer); ok {
							if !freshRoot(mi.X, 0) {
								m.addObject(pt.Elem())
							}
							continue
						}
						continue
					}
					m.boxed = true
				}
			}
			return
		}
	case *ssa.Const:
		return
	}
	m.boxed = true
}

func (m *modSet) addGhostSets(sp *FuncSpec) {
	for _, c := range sp.Clauses {
		if c.Kind == KGhostSet {
			if m.ghosts == nil {
				m.ghosts = map[string]bool{}
			}
			m.ghosts["G|"+sp.PkgPath+"."+c.Label] = true
		}
	}
}
