package main

import (
	"context"
	"fmt"
	"os"
	"os/exec"
	"path/filepath"
	"strings"
	"sync"
	"time"
)

type SolveResult struct {
	Name    string  `json:"name"`
	Status  string  `json:"status"` // discharged | refuted | undecided | cover-ok | cover-vacuous | cover-unknown
	Solver  string  `json:"solver"`
	Seconds float64 `json:"seconds"`
	Model   string  `json:"-"`
	Detail  string  `json:"detail,omitempty"`
	File    string  `json:"-"`
	All     map[string]string `json:"all_solvers,omitempty"`
}

// crossCheckAll (thorough tier): every solver runs to its own answer or time limit on every obligation.
var crossCheckAll bool

type solverDef struct {
	name string
	kind string // z3old, z3new, cvc5
	argv func(file string, timeout int) []string
}

var solvers = []solverDef{
	{"z3-4.8.12", "z3old", func(f string, t int) []string { return []string{"/usr/bin/z3", fmt.Sprintf("-T:%d", t), f} }},
	{"z3-5.1.0", "z3new", func(f string, t int) []string { return []string{"z3-new", fmt.Sprintf("-T:%d", t), f} }},
	{"cvc5-1.0", "cvc5", func(f string, t int) []string {
		// --no-strings-regexp-inclusion: cvc5 1.0.3 answers "unsat" for  x in [\0-\xff]* and not x in [a-z]*
		// (its regular-expression inclusion test is unsound); found when z3 and cvc5 disagreed on a C18 obligation
		return []string{"cvc5", "--strings-exp", "--no-strings-regexp-inclusion", fmt.Sprintf("--tlimit=%d", t*1000), "--produce-models", f}
	}},
	// the same solver with enumerative quantifier instantiation: finds the witness of
	// exists-over-list obligations that E-matching alone misses
	{"cvc5-1.0 --enum-inst", "cvc5", func(f string, t int) []string {
		return []string{"cvc5", "--strings-exp", "--no-strings-regexp-inclusion", "--enum-inst", fmt.Sprintf("--tlimit=%d", t*1000), "--produce-models", f}
	}},
}

func runSolver(ctx context.Context, sd solverDef, file string, timeout int) (status, out string, secs float64) {
	t0 := time.Now()
	argv := sd.argv(file, timeout)
	c, cancel := context.WithTimeout(ctx, time.Duration(timeout+3)*time.Second)
	defer cancel()
	cmd := exec.CommandContext(c, argv[0], argv[1:]...)
	b, _ := cmd.CombinedOutput()
	secs = time.Since(t0).Seconds()
	out = string(b)
	first := strings.TrimSpace(strings.SplitN(out, "\n", 2)[0])
	switch first {
	case "unsat", "sat", "unknown":
		return first, out, secs
	}
	if strings.Contains(first, "timeout") || c.Err() != nil {
		return "timeout", out, secs
	}
	return "error", out, secs
}

// solve races the installed solvers on one obligation.
func solve(o *Obligation, dir string, timeout int) *SolveResult {
	res := &SolveResult{Name: o.Name, All: map[string]string{}}
	if o.Structural {
		res.Solver = "structural (call-graph sweep over go/ssa)"
		res.Status = "discharged"
		if !o.StructOK {
			res.Status = "refuted"
			res.Detail = o.StructMsg
			res.Model = o.StructMsg
		}
		return res
	}
	base := filepath.Join(dir, sanitize(o.Name))
	if len(base) > 200 {
		base = base[:200]
	}
	if o.Probe {
		// an outcome probe: one solver, a few seconds; only a definite "unsat" is reported
		pf := base + ".probe.smt2"
		os.WriteFile(pf, []byte(o.Text("z3new")), 0644)
		st, _, secs := runSolver(context.Background(), solvers[1], pf, 3)
		res.Solver, res.Seconds = solvers[1].name, secs
		switch st {
		case "unsat":
			res.Status = "cover-vacuous"
		case "sat":
			res.Status = "cover-ok"
		default:
			res.Status = "cover-unknown"
		}
		return res
	}
	type ans struct {
		sd          solverDef
		status, out string
		secs        float64
	}
	ctx, cancel := context.WithCancel(context.Background())
	defer cancel()
	ch := make(chan ans, len(solvers))
	files := map[string]string{}
	for _, sd := range solvers {
		file := base + "." + sd.kind + ".smt2"
		os.WriteFile(file, []byte(o.Text(sd.kind)), 0644)
		files[sd.kind] = file
		go func(sd solverDef, file string) {
			st, out, secs := runSolver(ctx, sd, file, timeout)
			ch <- ans{sd, st, out, secs}
		}(sd, file)
	}
	t0 := time.Now()
	var errs []string
	decided := false
	var grace <-chan time.Time
	finish := func() *SolveResult {
		cancel()
		if res.Status == "discharged" && !o.Cover {
			// vacuity guard: the assumptions under which the goal was proved must themselves be satisfiable
			// (a contradictory assumption - of a contract or of the engine - would prove anything)
			o2 := *o
			o2.consistencyOnly = true
			cf := base + ".consistency.smt2"
			os.WriteFile(cf, []byte(o2.Text("z3new")), 0644)
			st, _, _ := runSolver(context.Background(), solvers[1], cf, 4)
			if st == "unsat" {
				st2, _, _ := runSolver(context.Background(), solvers[2], base+".consistency.smt2", 4)
				if st2 != "sat" {
					res.Status = "vacuous"
					res.Detail = "the assumptions of this obligation are unsatisfiable on their own"
				}
			}
			if res.Status == "discharged" {
				// ... and the path to the obligation must be feasible under them: an obligation that holds
				// because nothing reaches it (a hole in the engine's model, or dead code) is not a proof
				o2.reachOnly = true
				rf := base + ".reach.smt2"
				os.WriteFile(rf, []byte(o2.Text("z3new")), 0644)
				if st, _, _ := runSolver(context.Background(), solvers[1], rf, 4); st == "unsat" {
					if st2, _, _ := runSolver(context.Background(), solvers[2], rf, 4); st2 != "sat" {
						res.Status = "vacuous"
						res.Detail = "no execution reaches this obligation under the engine's assumptions (dead code, or a hole in the model)"
						// ... unless the path condition is false by its own definition - no assumption of a contract or
						// of the engine is needed to see it (a branch on a constant, e.g. "if err != nil" after an
						// inlined callee that returns a nil error): that is dead code, not a hole
						txt := o2.Text("z3new")
						var keep []string
						lines := strings.Split(txt, "\n")
						lastAssert := -1
						for i, l := range lines {
							if strings.HasPrefix(l, "(assert ") {
								lastAssert = i
							}
						}
						for i, l := range lines {
							if strings.HasPrefix(l, "(assert ") && i != lastAssert {
								continue
							}
							keep = append(keep, l)
						}
						df := base + ".deadcode.smt2"
						os.WriteFile(df, []byte(strings.Join(keep, "\n")), 0644)
						if st3, _, _ := runSolver(context.Background(), solvers[1], df, 4); st3 == "unsat" {
							res.Status = "discharged"
							res.Detail = "dead code: the path condition is false by definition (no assumption involved)"
						} else if o.Kind == "nopanic" {
							// an implicit run-time check in a branch that the contracts in force make unreachable (an
							// error branch after a callee whose verified contract says it never fails): code that is
							// not executed does not panic; the assumptions themselves were found satisfiable above
							res.Status = "discharged"
							res.Detail = "unreachable under the contracts in force (an implicit run-time check in a branch no execution takes)"
						}
					}
				}
			}
		}
		return res
	}
	for i := 0; i < len(solvers); {
		var a ans
		if grace != nil {
			select {
			case a = <-ch:
			case <-grace:
				return finish()
			}
		} else {
			a = <-ch
		}
		i++
		res.All[a.sd.name] = a.status
		if a.status == "unsat" || a.status == "sat" {
			if decided {
				// a second definitive answer inside the grace period: it must agree with the first
				first := "unsat"
				if res.Status == "refuted" || res.Status == "cover-ok" {
					first = "sat"
				}
				if a.status != first {
					res.Status = "solver-disagreement"
					res.Detail = fmt.Sprintf("%s answered %s, %s answered %s", res.Solver, first, a.sd.name, a.status)
					return finish()
				}
				continue
			}
			decided = true
			res.Solver = a.sd.name
			res.Seconds = a.secs
			res.File = files[a.sd.kind]
			if a.status == "unsat" {
				res.Status = "discharged"
				if o.Cover {
					res.Status = "cover-vacuous"
				}
			} else {
				res.Status = "refuted"
				res.Model = a.out
				if o.Cover {
					res.Status = "cover-ok"
				}
			}
			// the other solvers get a short grace period (or, in the thorough tier, their full time) to
			// contradict the answer: a disagreement is reported as BROKEN, never silently resolved
			g := time.Duration(300+int(a.secs*1000)) * time.Millisecond
			if crossCheckAll {
				g = 20 * time.Second
			}
			grace = time.After(g)
			continue
		}
		if a.status == "error" {
			errs = append(errs, a.sd.name+": "+firstLines(a.out, 3))
		}
	}
	if decided {
		return finish()
	}
	res.Seconds = time.Since(t0).Seconds()
	res.Status = "undecided"
	if o.Cover {
		res.Status = "cover-unknown"
	}
	res.File = files["z3new"]
	res.Detail = strings.Join(errs, " | ")
	return res
}

func firstLines(s string, n int) string {
	ls := strings.Split(strings.TrimSpace(s), "\n")
	if len(ls) > n {
		ls = ls[:n]
	}
	return strings.Join(ls, " / ")
}

func solveAll(obls []*Obligation, dir string, timeout, workers int) []*SolveResult {
	os.MkdirAll(dir, 0755)
	for _, o := range obls {
		if o.Script != nil {
			o.Script.index()
		}
	}
	out := make([]*SolveResult, len(obls))
	var wg sync.WaitGroup
	sem := make(chan struct{}, workers)
	for i, o := range obls {
		wg.Add(1)
		sem <- struct{}{}
		go func(i int, o *Obligation) {
			defer wg.Done()
			defer func() { <-sem }()
			t := timeout
			if ct := clauseTimeouts[o.Label]; ct > t {
				t = ct
			}
			out[i] = solve(o, dir, t)
		}(i, o)
	}
	wg.Wait()
	// second chance for obligations no solver decided: a machine under load can make a 2 s proof miss
	// its deadline; retry them a few at a time with three times the budget
	sem2 := make(chan struct{}, 2)
	for i, o := range obls {
		if out[i].Status != "undecided" && out[i].Status != "cover-unknown" {
			continue
		}
		if o.Probe {
			continue
		}
		if strings.Contains(out[i].Detail, "error") {
			continue
		}
		wg.Add(1)
		sem2 <- struct{}{}
		go func(i int, o *Obligation) {
			defer wg.Done()
			defer func() { <-sem2 }()
			t := timeout
			if ct := clauseTimeouts[o.Label]; ct > t {
				t = ct
			}
			r := solve(o, dir, 3*t)
			r.Detail = strings.TrimSpace(r.Detail + " (decided on the second attempt with a tripled time limit)")
			out[i] = r
		}(i, o)
	}
	wg.Wait()
	return out
}
