package main

import (
	"reflect"
	"go/ast"
	"os/exec"
	"regexp"
	"go/token"
	"encoding/json"
	"go/types"
	"flag"
	"fmt"
	"os"
	"path/filepath"
	"sort"
	"strconv"
	"strings"
	"sync"
	"time"

	"golang.org/x/tools/go/ssa"
)

type KnownFinding struct {
	Property   string `json:"property"`
	Obligation string `json:"obligation"`
	Status     string `json:"status"` // known | fixed
	What       string `json:"what"`
	Commit     string `json:"commit,omitempty"`
}

type root struct {
	fn   *ssa.Function
	spec *FuncSpec
}

// rootsFor selects the functions whose bodies must be verified for a property.
func rootsFor(eng *Engine, tag string) []root {
	var out []root
	seen := map[*ssa.Function]bool{}
	add := func(fn *ssa.Function, sp *FuncSpec) {
		if fn == nil || seen[fn] || len(fn.Blocks) == 0 {
			return
		}
		seen[fn] = true
		out = append(out, root{fn, sp})
	}
	// functions whose own contract carries the tag
	var keys []string
	for k := range eng.specs {
		keys = append(keys, k)
	}
	sort.Strings(keys)
	for _, k := range keys {
		sp := eng.specs[k]
		if sp.Trusted || sp.Ghost {
			continue
		}
		relevant := specHasTag(sp, tag, KEnsures, KInvariant, KCover, KAssertCall, KReturns)
		for _, t := range sp.NoPanicT {
			if t == tag {
				relevant = true
			}
		}
		if relevant {
			add(eng.ld.lookupFunc(sp.PkgPath, sp.Key), sp)
		}
	}
	// callers of functions whose preconditions carry the tag
	want := func(sp *FuncSpec) bool { return specHasTag(sp, tag, KRequires) }
	for _, fn := range eng.ld.repoFunctions() {
		if eng.ld.prog.Fset.Position(fn.Pos()).Filename == "" {
			continue
		}
		if strings.Contains(eng.ld.prog.Fset.Position(fn.Pos()).Filename, "zz_verif_spec_gen") {
			continue
		}
		if fn.Parent() != nil {
			continue // closures are reached through their parents (inlined) or havocked
		}
		if eng.callsAnyDeep(fn, want, map[*ssa.Function]bool{}) || eng.updatesTaggedMap(fn, tag) || eng.touchesGuarded(fn, tag) || eng.convertsTagged(fn, tag) {
			add(fn, eng.specForFn(fn))
		}
	}
	return out
}

// callsAnyDeep looks through closures defined in fn.
func (eng *Engine) callsAnyDeep(fn *ssa.Function, want func(*FuncSpec) bool, seen map[*ssa.Function]bool) bool {
	if seen[fn] {
		return false
	}
	seen[fn] = true
	if eng.callsAny(fn, want) {
		return true
	}
	for _, a := range fn.AnonFuncs {
		if eng.callsAnyDeep(a, want, seen) {
			return true
		}
	}
	return false
}

func main() {
	// the engine needs the newer toolchain to load /repo (go.mod says go 1.24); replays switch back
	os.Setenv("VERIF_ORIG_PATH", os.Getenv("PATH"))
	os.Setenv("PATH", "/opt/veriftools/go1.26.8/bin:"+os.Getenv("PATH"))
	if len(os.Args) < 2 {
		fmt.Println("usage: engine check|dump ...")
		os.Exit(2)
	}
	switch os.Args[1] {
	case "check":
		os.Exit(cmdCheck(os.Args[2:]))
	case "dump":
		os.Exit(cmdDump(os.Args[2:]))
	case "modset":
		os.Exit(cmdModset(os.Args[2:]))
	case "replay":
		os.Exit(cmdReplay(os.Args[2:]))
	default:
		fmt.Println("unknown command")
		os.Exit(2)
	}
}

func cmdDump(args []string) int {
	fs := flag.NewFlagSet("dump", flag.ExitOnError)
	repo := fs.String("repo", "/repo", "")
	verif := fs.String("verif", "/verif", "")
	pkg := fs.String("pkg", "", "package path suffix")
	fn := fs.String("func", "", "function key")
	fs.Parse(args)
	ld, err := Load(*repo, filepath.Join(*verif, "contracts/trusted"), nil)
	if err != nil {
		fmt.Println("BROKEN:", err)
		return 2
	}
	for p := range ld.byPath {
		if strings.HasSuffix(p, *pkg) && ld.inRepo(p) {
			if f := ld.lookupFunc(p, *fn); f != nil {
				f.WriteTo(os.Stdout)
				for _, a := range f.AnonFuncs {
					a.WriteTo(os.Stdout)
				}
			}
		}
	}
	return 0
}

func cmdCheck(args []string) int {
	fs := flag.NewFlagSet("check", flag.ExitOnError)
	repo := fs.String("repo", "/repo", "")
	verif := fs.String("verif", "/verif", "")
	prop := fs.String("prop", "", "property id")
	tier := fs.String("tier", "quick", "")
	only := fs.String("only", "", "restrict to functions whose name contains this")
	keep := fs.Bool("keep", false, "keep smt files")
	verbose := fs.Bool("v", false, "")
	fs.Parse(args)
	t0 := time.Now()
	seed, _ := strconv.Atoi(os.Getenv("VERIF_SEED"))
	if t := os.Getenv("VERIF_TIER"); t != "" && *tier == "" {
		*tier = t
	}
	timeout := 20
	if *tier == "thorough" {
		timeout = 90
		crossCheckAll = true // every answer is cross-checked by the other solvers (20 s each)
		probesOn = true      // outcome probes at contract calls (notes in the evidence)
	}
	ld, err := Load(*repo, filepath.Join(*verif, "contracts/trusted"), nil)
	var outOfDate []string
	if err != nil && ld != nil {
		// every error says that a clause names a field or method the code no longer has? then those clauses are
		// left out and the rest is checked: a violation found that way is a violation; without one the check ends
		// BROKEN (the contracts are out of date and nothing can be said)
		if outOfDate = staleFieldClauses(ld, err.Error()); len(outOfDate) > 0 {
			for _, k := range outOfDate {
				droppedClauses[strings.SplitN(k, " ", 2)[0]] = true
			}
			ld, err = Load(*repo, filepath.Join(*verif, "contracts/trusted"), nil)
		}
	}
	if err != nil {
		fmt.Println("BROKEN: cannot load /repo with its contracts:", err)
		return 2
	}
	staleContractClauses = outOfDate
	tLoad := time.Since(t0).Seconds()
	eng := NewEngine(ld)
	eng.configure()
	tags := map[string]bool{*prop: true}
	roots := rootsFor(eng, *prop)
	var obls []*Obligation
	var results []*VerifyResult
	var engineErrs []string
	for _, r := range roots {
		if *only != "" && !strings.Contains(r.fn.String(), *only) {
			continue
		}
		vr := eng.Verify(r.fn, r.spec, tags)
		results = append(results, vr)
		if vr.Err != "" {
			engineErrs = append(engineErrs, vr.Func+": "+vr.Err)
			continue
		}
		obls = append(obls, vr.Obls...)
	}
	obls = append(obls, eng.callersObligations(*prop)...)
	obls = append(obls, eng.nonBlockingObligations(*prop)...)
	obls = append(obls, eng.storedFieldsObligations(*prop)...)
	obls = append(obls, eng.initValuesObligations(*prop)...)
	obls = append(obls, eng.fieldTagObligations(*prop)...)
	obls = append(obls, eng.neverAssignedObligations(*prop)...)
	obls = append(obls, eng.frozenAfterObligations(*prop)...)
	tGen := time.Since(t0).Seconds() - tLoad
	tmp, _ := os.MkdirTemp("", "verif-smt-")
	if !*keep {
		defer os.RemoveAll(tmp)
	} else {
		fmt.Println("smt files in", tmp)
	}
	srs := solveAll(obls, tmp, timeout, 6)
	rep := &Report{Prop: *prop, Tier: *tier, Seed: seed, Verif: *verif, Repo: *repo, Eng: eng, Roots: results, Obls: obls, Results: srs,
		EngineErrs: engineErrs, LoadS: tLoad, GenS: tGen, T0: t0, Verbose: *verbose, Timeout: timeout}
	if *only == "" {
		rep.Bounded = runBounded(rep)
	}
	return rep.finish()
}

// ---------------------------------------------------------------- report

type Report struct {
	Prop, Tier  string
	Seed        int
	Verif, Repo string
	Eng         *Engine
	Roots       []*VerifyResult
	Obls        []*Obligation
	Results     []*SolveResult
	EngineErrs  []string
	LoadS, GenS float64
	T0          time.Time
	Verbose     bool
	Timeout     int
	Bounded     []*BoundedResult
	ProbeNotes  []string
}

// BoundedCheck: a bounded stand-in (contracts/bounded.json) for a clause no contract within reach can express:
// a test of the real functions over a stated finite space. Reported as bounded, never counted as proved.
type BoundedCheck struct {
	Property, Name, Pkg, File, Test, Bound string
}

type BoundedResult struct {
	Check      BoundedCheck
	Cases      int
	Violations int
	Output     string
	Seconds    float64
	Ran        bool
}

var boundedCasesRe = regexp.MustCompile(`BOUNDED-CASES (\d+) violations (\d+)`)

func runBounded(r *Report) []*BoundedResult {
	var checks []BoundedCheck
	b, err := os.ReadFile(filepath.Join(r.Verif, "contracts", "bounded.json"))
	if err != nil {
		return nil
	}
	json.Unmarshal(b, &checks)
	var out []*BoundedResult
	for _, c := range checks {
		if c.Property != r.Prop {
			continue
		}
		t0 := time.Now()
		os.Setenv("VERIF_TIER", r.Tier)
		o, _ := goReplay(r, c.Pkg, c.File, c.Test, map[string]string{})
		br := &BoundedResult{Check: c, Output: o, Seconds: time.Since(t0).Seconds()}
		if m := boundedCasesRe.FindStringSubmatch(o); m != nil {
			br.Ran = true
			br.Cases, _ = strconv.Atoi(m[1])
			br.Violations, _ = strconv.Atoi(m[2])
		}
		out = append(out, br)
	}
	return out
}

func loadKnown(verif string) []KnownFinding {
	var k []KnownFinding
	b, err := os.ReadFile(filepath.Join(verif, "known_findings.json"))
	if err == nil {
		json.Unmarshal(b, &k)
	}
	return k
}

func loadExpected(verif, prop string) map[string]bool {
	m := map[string]bool{}
	b, err := os.ReadFile(filepath.Join(verif, "expected", prop+".json"))
	if err != nil {
		return nil
	}
	var names []string
	json.Unmarshal(b, &names)
	for _, n := range names {
		m[n] = true
	}
	return m
}

func (r *Report) finish() int {
	known := loadKnown(r.Verif)
	expected := loadExpected(r.Verif, r.Prop)
	exit := 0
	violations := 0
	staleUncounted := 0
	discharged, total := 0, 0
	var lines []string
	var oblEv []map[string]any
	var samples []any
	knownHit := map[string]bool{}
	var vacuous []int
	replayDir := filepath.Join(r.Verif, "replays", r.Prop)
	solverSecs := 0.0
	bySolver := map[string]int{}
	for i, sr := range r.Results {
		o := r.Obls[i]
		solverSecs += sr.Seconds
		ev := map[string]any{"name": sr.Name, "kind": o.Kind, "status": sr.Status, "solver": sr.Solver, "seconds": round3(sr.Seconds), "pos": strings.TrimPrefix(o.Pos, r.Repo+"/")}
		oblEv = append(oblEv, ev)
		if o.Cover {
			if sr.Status == "cover-vacuous" && o.Probe {
				r.ProbeNotes = append(r.ProbeNotes, strings.SplitN(sr.Name, "#probe.", 2)[1]+" in "+o.Func)
				continue
			}
			if sr.Status == "cover-vacuous" {
				lines = append(lines, fmt.Sprintf("BROKEN: vacuity guard %s is unsatisfiable", sr.Name))
				exit = 2
			}
			continue
		}
		total++
		switch sr.Status {
		case "discharged":
			discharged++
			bySolver[sr.Solver]++
		default:
			// known finding?
			isKnown := false
			for _, k := range known {
				if k.Property == r.Prop && k.Status == "known" && k.Obligation == sr.Name {
					isKnown = true
					knownHit[k.Obligation] = true
					lines = append(lines, fmt.Sprintf("KNOWN-FINDING: property=%s %s: %s", r.Prop, k.Obligation, k.What))
				}
			}
			if isKnown {
				// a recorded defect of /repo: the obligation fails, is reported above and in the evidence, and is not one
				// of the obligations the proof-level claim of this run rests on
				ev["known_finding"] = true
				total--
				continue
			}
			if sr.Status == "vacuous" {
				vacuous = append(vacuous, i)
				continue
			}
			if staleFunc(sr.Name) {
				// part of this function's contract was left out (it names state the code no longer has): what its
				// remaining clauses say cannot be trusted either way
				// ... unless the refutation replays on the real code: a failing input is a violation whatever the state
				// of the contracts
				// (the must-fail self-test runs its children without replays: there the failure is taken as it stands)
				if rr := r.replay(o, sr); !rr.Confirmed && os.Getenv("VERIF_SELFTEST_CHILD") == "" {
					lines = append(lines, fmt.Sprintf("note: %s fails, but part of the contract of its function was left out as out of date and no failing input was found: not counted", sr.Name))
					staleUncounted++
					continue
				}
			}
			if sr.Status == "solver-disagreement" {
				lines = append(lines, fmt.Sprintf("BROKEN: the solvers disagree on %s (%s): nothing is concluded from it", sr.Name, sr.Detail))
				exit = 2
				continue
			}
			allErr := len(sr.All) > 0
			for _, a := range sr.All {
				if a != "error" {
					allErr = false
				}
			}
			if allErr {
				// no solver could even read the script: a defect of the generator, not of the code
				lines = append(lines, fmt.Sprintf("BROKEN: every solver rejected the script of %s: %s", sr.Name, truncate(sr.Detail, 400)))
				exit = 2
				continue
			}
			violations++
			os.MkdirAll(replayDir, 0755)
			rp := filepath.Join(replayDir, sanitize(sr.Name)+".json")
			rr := r.replay(o, sr)
			suffix := ""
			if !rr.Confirmed {
				suffix = " no-failing-input-found"
			}
			newSite := ""
			if expected != nil && !expected[sr.Name] {
				newSite = " (new-obligation: not among the obligations discharged on the unchanged tree)"
			}
			writeJSON(rp, map[string]any{"property": r.Prop, "obligation": sr.Name, "kind": o.Kind, "position": o.Pos, "status": sr.Status,
				"solver": sr.Solver, "solver_answers": sr.All, "solver_output": truncate(sr.Model, 20000), "detail": sr.Detail,
				"replay": rr, "goal": truncate(o.Goal, 4000)})
			lines = append(lines, fmt.Sprintf("obligation %s at %s: %s%s", sr.Name, o.Pos, sr.Status, newSite))
			if rr.Summary != "" {
				lines = append(lines, "  replay: "+rr.Summary)
			}
			lines = append(lines, fmt.Sprintf("VIOLATION property=%s replay=%s%s", r.Prop, rp, suffix))
			exit = max(exit, 1)
		}
		if len(samples) < 4 && sr.Status == "discharged" {
			samples = append(samples, map[string]any{"obligation": sr.Name, "goal": truncate(o.Goal, 600), "guard": truncate(o.Guard, 200)})
		}
	}
	// vacuously proved obligations: explained when another obligation of the same function fails (an invariant that
	// does not hold on entry makes the code after the loop head unreachable under it); otherwise a hole
	for _, i := range vacuous {
		sr, o := r.Results[i], r.Obls[i]
		explained := false
		for j, other := range r.Results {
			if j != i && r.Obls[j].Func == o.Func && !r.Obls[j].Cover && other.Status != "discharged" && other.Status != "vacuous" {
				explained = true
			}
		}
		if explained {
			lines = append(lines, fmt.Sprintf("note: %s is not reachable under the assumptions of its function, one of which fails (see the violation above)", sr.Name))
		} else {
			lines = append(lines, fmt.Sprintf("BROKEN: %s was proved vacuously: %s", sr.Name, sr.Detail))
			exit = 2
		}
	}
	// bounded stand-ins: reported apart, never counted among the obligations
	var boundedEv []map[string]any
	for _, br := range r.Bounded {
		ev := map[string]any{"name": br.Check.Name, "bound": br.Check.Bound, "level": "bounded (a run of the real functions over the stated finite space; not a proof)",
			"cases": br.Cases, "violations": br.Violations, "seconds": round3(br.Seconds), "test": br.Check.Test}
		boundedEv = append(boundedEv, ev)
		if !br.Ran {
			lines = append(lines, fmt.Sprintf("BROKEN: bounded check %s did not run: %s", br.Check.Name, firstLines(br.Output, 4)))
			exit = 2
			continue
		}
		if br.Violations > 0 {
			isKnown := false
			for _, k := range known {
				if k.Property == r.Prop && k.Status == "known" && k.Obligation == "bounded:"+br.Check.Name {
					isKnown = true
					lines = append(lines, fmt.Sprintf("KNOWN-FINDING: property=%s bounded:%s: %s", r.Prop, br.Check.Name, k.What))
				}
			}
			if isKnown {
				continue
			}
			violations++
			os.MkdirAll(replayDir, 0755)
			rp := filepath.Join(replayDir, sanitize("bounded_"+br.Check.Name)+".json")
			var fails []string
			for _, l := range strings.Split(br.Output, "\n") {
				if strings.HasPrefix(l, "BOUNDED-VIOLATION") {
					fails = append(fails, truncate(l, 1500))
				}
			}
			writeJSON(rp, map[string]any{"property": r.Prop, "obligation": "bounded:" + br.Check.Name, "kind": "bounded", "bound": br.Check.Bound,
				"cases": br.Cases, "violations": br.Violations, "failing_cases": fails, "replay": map[string]any{"confirmed": true, "driver": br.Check.Test, "summary": "the failing histories were produced by running the real functions"}})
			lines = append(lines, fmt.Sprintf("bounded check %s: %d of %d cases fail; first: %s", br.Check.Name, br.Violations, br.Cases, truncate(strings.Join(fails, " | "), 400)))
			lines = append(lines, fmt.Sprintf("VIOLATION property=%s replay=%s", r.Prop, rp))
			exit = max(exit, 1)
		}
	}
	// vacuity: obligations must exist, and the expected ones must all be present
	if total == 0 {
		lines = append(lines, "BROKEN: no obligations generated for "+r.Prop)
		exit = 2
	}
	var missing []string
	if expected != nil {
		have := map[string]bool{}
		for _, o := range r.Obls {
			have[o.Name] = true
		}
		for n := range expected {
			if !have[n] {
				missing = append(missing, n)
			}
		}
		sort.Strings(missing)
	}
	for _, e := range r.EngineErrs {
		lines = append(lines, "BROKEN: engine error in "+e)
		exit = 2
	}
	var funcs []string
	var inlined, used []string
	seenI, seenU := map[string]bool{}, map[string]bool{}
	havoc := map[string]int{}
	for _, vr := range r.Roots {
		funcs = append(funcs, vr.Func)
		for _, x := range vr.Inlined {
			if !seenI[x] {
				seenI[x] = true
				inlined = append(inlined, x)
			}
		}
		for _, x := range vr.Used {
			if !seenU[x] {
				seenU[x] = true
				used = append(used, x)
			}
		}
		for k, v := range vr.Havocked {
			havoc[k] += v
		}
	}
	sort.Strings(inlined)
	sort.Strings(used)
	var trusted []string
	for _, u := range used {
		if sp := r.Eng.specs[u]; sp != nil && sp.Trusted {
			trusted = append(trusted, "trusted contract: "+u+" ("+filepath.Base(sp.File)+")")
		}
	}
	var dropped []string
	for k, v := range r.Eng.dropped {
		dropped = append(dropped, fmt.Sprintf("%s (x%d)", k, v))
	}
	sort.Strings(dropped)
	var hv []string
	for k, v := range havoc {
		hv = append(hv, fmt.Sprintf("%s (x%d)", k, v))
	}
	sort.Strings(hv)
	assumptions := []string{
		"go/types + go/ssa (x/tools v0.50.0) front end and this VC generator are trusted",
		"SMT solvers z3 4.8.12, z3 5.1.0, cvc5 1.0 are trusted (an obligation is discharged when any of them answers unsat)",
		"integers are fixed-width bit-vectors with Go wrap-around semantics (not mathematical); strings are SMT-LIB strings with one character per byte",
		"callees without a contract that are not inlined (libraries, interface methods) are assumed to modify only the objects their arguments point to directly, and never the elements of []string arguments",
		"goroutine interleavings, channel contents, select, recover, reflection and unsafe are dropped by the extraction; termination is not proved",
	}
	for a := range r.Eng.assumes {
		assumptions = append(assumptions, a)
	}
	sort.Strings(assumptions[5:])
	assumptions = append(assumptions, r.Eng.extraAssumptions(r.Prop)...)
	tb := append([]string{"go/ssa front end", "verif/engine VC generator", "z3 4.8.12 / z3 5.1.0 / cvc5 1.0"}, trusted...)
	wall := time.Since(r.T0).Seconds()
	level := "proof"
	cov := map[string]any{
		"obligations":              total,
		"discharged":               discharged,
		"checker_cmd":              fmt.Sprintf("./check %s %s", r.Prop, r.Tier),
		"trusted_base":             tb,
		"functions_under_contract": funcs,
		"inlined_repo_callees":     inlined,
		"contracts_used_at_calls":  used,
		"discharged_by_solver":     bySolver,
		"solver_seconds_total":     round3(solverSecs),
		"load_seconds":             round3(r.LoadS),
		"vcgen_seconds":            round3(r.GenS),
		"per_solver_timeout_s":     r.Timeout,
		"obligation_results":       oblEv,
		"samples":                  samples,
		"dropped_by_extraction":    dropped,
		"unknown_calls_havocked":   hv,
		"expected_missing":         missing,
		"evaluations":              len(r.Results),
		"distinct_nontrivial":      total,
		"rule":                     "one case = one named proof obligation generated from /repo's SSA and its contracts; non-trivial = not a vacuity/cover query",
	}
	if len(boundedEv) > 0 {
		cov["bounded_checks"] = boundedEv
	}
	sort.Strings(r.ProbeNotes)
	cov["call_outcomes_excluded_by_contracts"] = r.ProbeNotes
	if r.Verbose {
		for _, n := range r.ProbeNotes {
			lines = append(lines, "note: outcome excluded at a call: "+n)
		}
	}
	if r.Tier == "thorough" && exit == 0 && os.Getenv("VERIF_SELFTEST_CHILD") == "" {
		st, stLines, ok := r.selfTest()
		cov["selftest_seeded_changes"] = st
		lines = append(lines, stLines...)
		if !ok {
			exit = 2
		}
	}
	var kf []string
	for k := range knownHit {
		kf = append(kf, k)
	}
	sort.Strings(kf)
	cov["known_findings_hit"] = kf
	cov["obligations_failing_as_recorded_findings"] = len(kf)
	if len(kf) > 0 {
		cov["explanation"] = fmt.Sprintf("%d further obligation(s) of this property FAIL on this tree and are recorded defects of /repo (known_findings.json, printed as KNOWN-FINDING lines, listed in known_findings_hit): they are not counted in obligations/discharged, and the property is not proved for the call sites they name", len(kf))
	}
	evd := map[string]any{"property_id": r.Prop, "tier": r.Tier, "seed": r.Seed, "level": level, "coverage": cov,
		"assumptions": assumptions, "wall_s": round3(time.Since(r.T0).Seconds()), "violations": violations}
	os.MkdirAll(filepath.Join(r.Verif, "evidence"), 0755)
	writeJSON(filepath.Join(r.Verif, "evidence", r.Prop+".json"), evd)
	for _, l := range lines {
		fmt.Println(l)
	}
	if len(missing) > 0 {
		fmt.Printf("note: %d obligation(s) recorded for the unchanged tree were not generated (code moved or call sites removed): %s\n", len(missing), strings.Join(missing, ", "))
	}
	if len(staleContractClauses) > 0 {
		// clauses that name state the code no longer has were left out: what remains was checked
		for _, k := range staleContractClauses {
			fmt.Println("note: contract clause left out (out of date): " + k)
		}
		// a loop invariant is a proof aid, not a statement of the property: when the invariant left out named a
		// vanished loop variable and every other obligation of its function is still discharged, nothing is missing
		onlyAids := staleUncounted == 0
		for _, k := range staleContractClauses {
			if !strings.Contains(k, " names loop local ") {
				onlyAids = false
			}
		}
		if exit == 0 && !onlyAids {
			fmt.Printf("BROKEN: %d contract clause(s) name a field, method or loop variable that the code no longer has, and nothing that remains fails: the contracts are out of date\n", len(staleContractClauses))
			exit = 2
		}
	}
	kfNote := ""
	if len(kf) > 0 {
		kfNote = fmt.Sprintf(" %d more fail as recorded findings,", len(kf))
	}
	fmt.Printf("%s %s: %d/%d obligations discharged over %d functions,%s %d violation(s), load %.1fs vcgen %.1fs total %.1fs\n",
		r.Prop, r.Tier, discharged, total, len(funcs), kfNote, violations, r.LoadS, r.GenS, wall)
	if r.Verbose {
		for i, sr := range r.Results {
			fmt.Printf("  %-14s %-10s %6.2fs %s  [%s]\n", sr.Status, sr.Solver, sr.Seconds, sr.Name, r.Obls[i].Pos)
		}
	}
	return exit
}

func round3(f float64) float64 { return float64(int(f*1000)) / 1000 }

func truncate(s string, n int) string {
	if len(s) > n {
		return s[:n] + "...[truncated]"
	}
	return s
}

func writeJSON(path string, v any) {
	b, _ := json.MarshalIndent(v, "", " ")
	os.WriteFile(path, append(b, '\n'), 0644)
}

// updatesTaggedMap: fn (or a closure in it) stores into a map whose value type carries an invariant with the tag.
func (eng *Engine) updatesTaggedMap(fn *ssa.Function, tag string) bool {
	for _, b := range fn.Blocks {
		for _, in := range b.Instrs {
			if mu, ok := in.(*ssa.MapUpdate); ok {
				if mt, ok := mu.Map.Type().Underlying().(*types.Map); ok {
					for _, vi := range eng.valInvs(mt.Elem()) {
						if vi.c.HasTag(tag) {
							return true
						}
					}
				}
			}
		}
	}
	for _, a := range fn.AnonFuncs {
		if eng.updatesTaggedMap(a, tag) {
			return true
		}
	}
	return false
}

// touchesGuarded: fn (or a closure defined in it) takes the address of a field under a lock rule tagged tag.
func (eng *Engine) touchesGuarded(fn *ssa.Function, tag string) bool {
	if len(eng.guarded) == 0 {
		return false
	}
	tmp := &Exec{eng: eng, s: newScript(), compSort: map[string]string{}}
	for _, b := range fn.Blocks {
		for _, in := range b.Instrs {
			fa, ok := in.(*ssa.FieldAddr)
			if !ok {
				continue
			}
			pt, ok := fa.X.Type().Underlying().(*types.Pointer)
			if !ok {
				continue
			}
			if _, ok := pt.Elem().Underlying().(*types.Struct); !ok {
				continue
			}
			comp, _ := tmp.fieldComp(pt.Elem(), fa.Field)
			if gi, ok := eng.guarded[comp]; ok && gi.clause.HasTag(tag) {
				return true
			}
		}
	}
	for _, a := range fn.AnonFuncs {
		if eng.touchesGuarded(a, tag) {
			return true
		}
	}
	return false
}

// cmdReplay: "./check --replay <file>": prints what the replay file records and, when it names a replay test,
// runs that test again on the current /repo with the recorded inputs.
func cmdReplay(args []string) int {
	fs := flag.NewFlagSet("replay", flag.ExitOnError)
	repo := fs.String("repo", "/repo", "")
	verif := fs.String("verif", "/verif", "")
	file := fs.String("file", "", "replay file")
	fs.Parse(args)
	b, err := os.ReadFile(*file)
	if err != nil {
		fmt.Println("cannot read", *file, err)
		return 2
	}
	var rec struct {
		Property   string `json:"property"`
		Obligation string `json:"obligation"`
		Status     string `json:"status"`
		Position   string `json:"position"`
		Replay     struct {
			Confirmed  bool              `json:"confirmed"`
			Summary    string            `json:"summary"`
			Driver     string            `json:"driver"`
			Invocation *ReplayInvocation `json:"invocation"`
		} `json:"replay"`
	}
	if err := json.Unmarshal(b, &rec); err != nil {
		fmt.Println("bad replay file:", err)
		return 2
	}
	fmt.Printf("property %s, obligation %s (%s) at %s\n", rec.Property, rec.Obligation, rec.Status, rec.Position)
	fmt.Printf("recorded replay: confirmed=%v %s\n", rec.Replay.Confirmed, rec.Replay.Summary)
	inv := rec.Replay.Invocation
	if inv == nil {
		fmt.Println("no executable replay is recorded for this obligation (the file carries the solver's output)")
		return 0
	}
	raceReplay = inv.Race
	out, conf := goReplay(&Report{Repo: *repo, Verif: *verif}, inv.Pkg, inv.File, inv.Test, inv.Inputs)
	if inv.Race {
		conf = strings.Contains(out, "WARNING: DATA RACE")
	}
	if strings.HasPrefix(inv.File, "seeded/") {
		// a demonstration of the seeded corpus: a plain test of the real code; it fails when the behaviour is there
		conf = strings.Contains(out, "--- FAIL") && !strings.Contains(out, "[build failed]")
	}
	fmt.Printf("re-run of %s on the current tree: confirmed=%v\n%s\n", inv.Test, conf, replaySummary(out))
	if conf {
		return 1
	}
	return 0
}

func cmdModset(args []string) int {
	fs := flag.NewFlagSet("modset", flag.ExitOnError)
	repo := fs.String("repo", "/repo", "")
	verif := fs.String("verif", "/verif", "")
	pkg := fs.String("pkg", "cmd/keymasterd", "")
	fn := fs.String("func", "", "function key")
	fs.Parse(args)
	ld, err := Load(*repo, filepath.Join(*verif, "contracts/trusted"), nil)
	if err != nil {
		fmt.Println("BROKEN:", err)
		return 2
	}
	eng := NewEngine(ld)
	for p := range ld.byPath {
		if strings.HasSuffix(p, *pkg) && ld.inRepo(p) {
			if f := ld.lookupFunc(p, *fn); f != nil {
				ms := eng.modSetOf(f)
				fmt.Println("all:", ms.all, "hasExpr:", ms.hasExpr, "boxed:", ms.boxed, "named:", ms.named)
				var keys []string
				for k := range ms.descs {
					keys = append(keys, k)
				}
				sort.Strings(keys)
				for _, k := range keys {
					fmt.Println("  ", k)
				}
			}
		}
	}
	return 0
}

// callersObligations: structural "only called from" rules of the contract files for a property.
func (eng *Engine) callersObligations(tag string) []*Obligation {
	var out []*Obligation
	var paths []string
	for p := range eng.ld.pkgSpecs {
		paths = append(paths, p)
	}
	sort.Strings(paths)
	for _, p := range paths {
		for _, rule := range eng.ld.pkgSpecs[p].Callers {
			has := false
			for _, t := range rule.Tags {
				if t == tag {
					has = true
				}
			}
			if !has {
				continue
			}
			var bad []string
			n := 0
			for _, fn := range eng.ld.repoFunctions() {
				pos := eng.prog.Fset.Position(fn.Pos())
				if strings.Contains(pos.Filename, "zz_verif_spec_gen") || strings.HasSuffix(pos.Filename, "_test.go") {
					continue
				}
				for _, b := range fn.Blocks {
					for _, in := range b.Instrs {
						var cc *ssa.CallCommon
						switch x := in.(type) {
						case *ssa.Call:
							cc = &x.Call
						case *ssa.Defer:
							cc = &x.Call
						case *ssa.Go:
							cc = &x.Call
						}
						if cc == nil {
							continue
						}
						key := ""
						if cc.IsInvoke() {
							key = "(" + typeKey(cc.Value.Type()) + ")." + cc.Method.Name()
						} else if callee, ok := cc.Value.(*ssa.Function); ok {
							_, key = calleeKeyOf(callee)
						}
						if key == "" || !matchCallee(key, rule.Callee) {
							continue
						}
						n++
						root := fn
						for root.Parent() != nil {
							root = root.Parent()
						}
						_, ck := calleeKeyOf(root)
						ok := false
						for _, a := range rule.Allowed {
							if matchCallee(ck, a) {
								ok = true
							}
						}
						if !ok {
							bad = append(bad, ck+" at "+eng.prog.Fset.Position(in.Pos()).String())
						}
					}
				}
			}
			if len(rule.Allowed) == 1 && rule.Allowed[0] == "none" {
				// "callers KEY only none": one obligation per calling function, so that each existing caller can be
				// recorded as a finding of its own and a new caller is a new, unlisted violation
				byCaller := map[string][]string{}
				for _, b := range bad {
					i := strings.Index(b, " at ")
					byCaller[b[:i]] = append(byCaller[b[:i]], b[i+4:])
				}
				var cs []string
				for c := range byCaller {
					cs = append(cs, c)
				}
				sort.Strings(cs)
				for _, c := range cs {
					// ... and one per further call site of the same caller (a second write-back added to a function
					// that already has one is a new violation too); sites in source order
					sites := byCaller[c]
					sort.Slice(sites, func(i, j int) bool { return posLess(sites[i], sites[j]) })
					for k, site := range sites {
						name := "callgraph#" + rule.Label + "@" + c
						if k > 0 {
							name += fmt.Sprintf("#site%d", k+1)
						}
						out = append(out, &Obligation{Name: name, Func: "call graph of /repo", Kind: "structural", Label: rule.Label, Tags: rule.Tags,
							Pos: site, Structural: true, StructOK: false, Guard: "true",
							Goal:      fmt.Sprintf("%s does not call %s (call site %d of %d)", c, rule.Callee, k+1, len(sites)),
							StructMsg: fmt.Sprintf("%s calls %s at %s", c, rule.Callee, site)})
					}
				}
				if len(cs) == 0 {
					out = append(out, &Obligation{Name: "callgraph#" + rule.Label, Func: "call graph of /repo", Kind: "structural", Label: rule.Label, Tags: rule.Tags,
						Pos: fmt.Sprintf("%s:%d", rule.File, rule.Line), Structural: true, StructOK: true, Guard: "true", Goal: "no function calls " + rule.Callee})
				}
				continue
			}
			o := &Obligation{Name: "callgraph#" + rule.Label, Func: "call graph of /repo", Kind: "structural", Label: rule.Label, Tags: rule.Tags,
				Pos: fmt.Sprintf("%s:%d", rule.File, rule.Line), Structural: true, StructOK: len(bad) == 0 && n > 0,
				Goal: fmt.Sprintf("every call of %s (%d found) is inside %v", rule.Callee, n, rule.Allowed), Guard: "true"}
			if len(bad) > 0 {
				o.StructMsg = "calls outside the allowed functions: " + strings.Join(bad, "; ")
			} else if n == 0 {
				o.StructMsg = "no call of " + rule.Callee + " found: rule out of date"
			}
			out = append(out, o)
		}
	}
	return out
}

// nonBlockingObligations: "nonblocking F1, F2" rules: no channel send, receive or blocking select, and no sleep,
// in the listed functions or in anything they call (statically, closures included) inside /repo.
func (eng *Engine) nonBlockingObligations(tag string) []*Obligation {
	var out []*Obligation
	var paths []string
	for p := range eng.ld.pkgSpecs {
		paths = append(paths, p)
	}
	sort.Strings(paths)
	for _, p := range paths {
		for _, rule := range eng.ld.pkgSpecs[p].NonBlock {
			has := false
			for _, t := range rule.Tags {
				if t == tag {
					has = true
				}
			}
			if !has {
				continue
			}
			var bad []string
			seen := map[*ssa.Function]bool{}
			n := 0
			var walk func(fn *ssa.Function)
			walk = func(fn *ssa.Function) {
				if fn == nil || seen[fn] || len(fn.Blocks) == 0 {
					return
				}
				seen[fn] = true
				n++
				for _, b := range fn.Blocks {
					for _, in := range b.Instrs {
						at := fn.String() + " at " + eng.prog.Fset.Position(in.Pos()).String()
						switch x := in.(type) {
						case *ssa.Send:
							bad = append(bad, "blocking channel send in "+at)
						case *ssa.Select:
							if x.Blocking {
								bad = append(bad, "blocking select in "+at)
							}
						case *ssa.UnOp:
							if x.Op == token.ARROW {
								bad = append(bad, "channel receive in "+at)
							}
						case *ssa.MakeClosure:
							if cf, ok := x.Fn.(*ssa.Function); ok {
								walk(cf)
							}
						case *ssa.Call:
							if callee, ok := x.Call.Value.(*ssa.Function); ok {
								if callee.String() == "time.Sleep" {
									bad = append(bad, "sleep in "+at)
								}
								if callee.Pkg != nil && eng.ld.inRepo(callee.Pkg.Pkg.Path()) {
									walk(callee)
								}
							}
						case *ssa.Defer:
							if callee, ok := x.Call.Value.(*ssa.Function); ok && callee.Pkg != nil && eng.ld.inRepo(callee.Pkg.Pkg.Path()) {
								walk(callee)
							}
						}
					}
				}
			}
			missing := []string{}
			for _, key := range rule.Allowed {
				fn := eng.ld.lookupFunc(p, key)
				if fn == nil {
					missing = append(missing, key)
					continue
				}
				walk(fn)
			}
			o := &Obligation{Name: "callgraph#" + rule.Label, Func: "call graph of /repo", Kind: "structural", Label: rule.Label, Tags: rule.Tags,
				Pos: fmt.Sprintf("%s:%d", rule.File, rule.Line), Structural: true, StructOK: len(bad) == 0 && len(missing) == 0,
				Goal: fmt.Sprintf("%v and their callees in /repo (%d functions) never block on a channel", rule.Allowed, n), Guard: "true"}
			if len(missing) > 0 {
				o.StructMsg = "functions not found (rule out of date): " + strings.Join(missing, ", ")
			} else if len(bad) > 0 {
				o.StructMsg = strings.Join(bad, "; ")
			}
			out = append(out, o)
		}
	}
	return out
}

// posLess orders "file:line:col" positions of one file by line, then column.
func posLess(a, b string) bool {
	pa, pb := strings.Split(a, ":"), strings.Split(b, ":")
	if len(pa) < 3 || len(pb) < 3 {
		return a < b
	}
	la, _ := strconv.Atoi(pa[len(pa)-2])
	lb, _ := strconv.Atoi(pb[len(pb)-2])
	if la != lb {
		return la < lb
	}
	ca, _ := strconv.Atoi(pa[len(pa)-1])
	cb, _ := strconv.Atoi(pb[len(pb)-1])
	return ca < cb
}

// selfTest (thorough tier): the must-fail corpus. Every seeded change of this property that the committed record
// (seeded/<id>/meta.json) says is detected is applied to a scratch copy of /repo's current working tree, the quick
// check is run on the copy (replays skipped), and it must report a violation. A seed whose patch no longer applies
// is skipped and listed. A recorded detection that is lost (twice in a row) is reported as a note and recorded in the
// evidence; it does not change the exit status, which speaks about the tree under check only.
func (r *Report) selfTest() ([]map[string]any, []string, bool) {
	var out []map[string]any
	var lines []string
	ok := true
	ents, _ := os.ReadDir(filepath.Join(r.Verif, "seeded"))
	self, err := os.Executable()
	if err != nil {
		return nil, []string{"BROKEN: selftest: " + err.Error()}, false
	}
	for _, e := range ents {
		if !e.IsDir() {
			continue
		}
		dir := filepath.Join(r.Verif, "seeded", e.Name())
		var meta struct {
			Property   string `json:"property"`
			Detected   *bool  `json:"detected"`
			Detections []struct {
				Check string `json:"check"`
			} `json:"detections"`
		}
		b, err := os.ReadFile(filepath.Join(dir, "meta.json"))
		if err != nil || json.Unmarshal(b, &meta) != nil || meta.Detected == nil || !*meta.Detected {
			continue
		}
		mine := false
		for _, d := range meta.Detections {
			if d.Check == r.Prop {
				mine = true
			}
		}
		if !mine {
			continue
		}
		scratch, err := os.MkdirTemp("/var/tmp", "verif-selftest-")
		if err != nil {
			return out, append(lines, "BROKEN: selftest: "+err.Error()), false
		}
		res := map[string]any{"seed": e.Name()}
		func() {
			defer os.RemoveAll(scratch)
			repoCopy := filepath.Join(scratch, "repo")
			verifCopy := filepath.Join(scratch, "verif")
			if o, err := exec.Command("rsync", "-a", "--exclude", ".git", r.Repo+"/", repoCopy+"/").CombinedOutput(); err != nil {
				res["result"] = "copy failed: " + string(o)
				ok = false
				return
			}
			exec.Command("rsync", "-a", "--exclude", ".git", "--exclude", "bin", "--exclude", "replays", "--exclude", "seeded", "--exclude", "evidence", r.Verif+"/", verifCopy+"/").Run()
			p := exec.Command("patch", "-p1", "-s", "--no-backup-if-mismatch", "-i", filepath.Join(dir, "patch.diff"))
			p.Dir = repoCopy
			if o, err := p.CombinedOutput(); err != nil {
				res["result"] = "skipped: the patch does not apply to the current tree"
				_ = o
				return
			}
			c := exec.Command(self, "check", "-prop", r.Prop, "-tier", "quick", "-repo", repoCopy, "-verif", verifCopy)
			c.Env = append(os.Environ(), "VERIF_NO_REPLAY=1", "VERIF_SELFTEST_CHILD=1", "VERIF_TIER=quick")
			o, _ := c.CombinedOutput()
			if !strings.Contains(string(o), "VIOLATION property="+r.Prop) {
				// once more before anything is said: a loaded machine makes solvers time out
				c2 := exec.Command(self, "check", "-prop", r.Prop, "-tier", "quick", "-repo", repoCopy, "-verif", verifCopy)
				c2.Env = c.Env
				o, _ = c2.CombinedOutput()
			}
			if strings.Contains(string(o), "VIOLATION property="+r.Prop) {
				res["result"] = "detected"
				for _, l := range strings.Split(string(o), "\n") {
					if strings.HasPrefix(l, "obligation ") {
						res["obligation"] = strings.Fields(l)[1]
						break
					}
				}
			} else {
				res["result"] = "NOT detected"
				res["output"] = truncate(string(o), 1500)
				// reported, recorded in the evidence, but not a verdict about /repo: the exit status is that of the
				// obligations on the tree under check
				lines = append(lines, "note: selftest: the seeded change "+e.Name()+" (recorded as detected by "+r.Prop+") was not detected in this run (twice); see coverage.selftest in the evidence")
			}
		}()
		out = append(out, res)
	}
	return out, lines, ok
}

// storedFieldsObligations: "storedfields T1, T2" rules: a struct that is written to the store with encoding/gob
// (or JSON) loses every unexported field silently; all fields of the named types, and of the /repo struct types
// reachable from them, must be exported.
func (eng *Engine) storedFieldsObligations(tag string) []*Obligation {
	var out []*Obligation
	var paths []string
	for p := range eng.ld.pkgSpecs {
		paths = append(paths, p)
	}
	sort.Strings(paths)
	for _, p := range paths {
		for _, rule := range eng.ld.pkgSpecs[p].StoredFields {
			has := false
			for _, t := range rule.Tags {
				if t == tag {
					has = true
				}
			}
			if !has {
				continue
			}
			pk := eng.ld.byPath[p]
			var bad []string
			n := 0
			seen := map[types.Type]bool{}
			var walk func(t types.Type, where string)
			walk = func(t types.Type, where string) {
				if seen[t] {
					return
				}
				seen[t] = true
				switch u := t.(type) {
				case *types.Named:
					if u.Obj().Pkg() != nil && eng.ld.inRepo(u.Obj().Pkg().Path()) {
						walk(u.Underlying(), u.Obj().Name())
					}
				case *types.Pointer:
					walk(u.Elem(), where)
				case *types.Slice:
					walk(u.Elem(), where)
				case *types.Array:
					walk(u.Elem(), where)
				case *types.Map:
					walk(u.Key(), where)
					walk(u.Elem(), where)
				case *types.Struct:
					for i := 0; i < u.NumFields(); i++ {
						n++
						if !u.Field(i).Exported() {
							bad = append(bad, where+"."+u.Field(i).Name())
						}
						walk(u.Field(i).Type(), where)
					}
				}
			}
			missing := []string{}
			for _, tn := range rule.Allowed {
				obj := pk.Types.Scope().Lookup(tn)
				if obj == nil {
					missing = append(missing, tn)
					continue
				}
				walk(obj.Type(), tn)
			}
			sort.Strings(bad)
			o := &Obligation{Name: "types#" + rule.Label, Func: "types of " + p, Kind: "structural", Label: rule.Label, Tags: rule.Tags,
				Pos: fmt.Sprintf("%s:%d", rule.File, rule.Line), Structural: true, StructOK: len(bad) == 0 && len(missing) == 0 && n > 0,
				Goal: fmt.Sprintf("every field of %v and of the /repo struct types they contain (%d fields) is exported", rule.Allowed, n), Guard: "true"}
			if len(bad) > 0 {
				o.StructMsg = "unexported fields, which the encoder skips silently: " + strings.Join(bad, ", ")
			} else if len(missing) > 0 {
				o.StructMsg = "no such type: " + strings.Join(missing, ", ")
			}
			out = append(out, o)
		}
	}
	return out
}

var fieldMissingRe = regexp.MustCompile(`^(\S+zz_verif_spec_gen[^:]*\.go):(\d+):\d+: (\S+) undefined \(type (\S+) has no field or method (\w+)\)`)
var genFuncRe = regexp.MustCompile(`^func (\w+)\(`)

// staleContractClauses: clauses dropped by the second load (reported at the end of the run).
var staleContractClauses []string

var staleMu sync.Mutex

func noteStaleClause(k string) {
	staleMu.Lock()
	defer staleMu.Unlock()
	for _, x := range staleContractClauses {
		if x == k {
			return
		}
	}
	staleContractClauses = append(staleContractClauses, k)
}

// staleFunc: the obligation belongs to a function part of whose contract was dropped.
func staleFunc(oblName string) bool {
	for _, k := range staleContractClauses {
		// "file:line KEY#label names ..."
		f := strings.Fields(k)
		if len(f) < 2 {
			continue
		}
		key := f[1]
		if i := strings.Index(key, "#"); i >= 0 {
			key = key[:i]
		}
		if strings.Contains(oblName, key+"#") {
			return true
		}
	}
	return false
}

// staleFieldClauses: /repo stopped type-checking with its contracts; when every error says that a clause names a
// field (or method) which the type no longer has - the code renamed or removed state the clause relies on - the
// clauses concerned are returned as "contractfile:line what".
func staleFieldClauses(ld *Loader, errText string) []string {
	var out []string
	seen := map[string]bool{}
	for _, l := range strings.Split(errText, "\n")[1:] {
		l = strings.TrimSpace(l)
		if l == "" {
			continue
		}
		m := fieldMissingRe.FindStringSubmatch(l)
		if m == nil {
			return nil
		}
		found := false
		for _, ps := range ld.pkgSpecs {
			src, ok := ps.GenFiles[m[1]]
			if !ok {
				continue
			}
			lines := strings.Split(string(src), "\n")
			ln, _ := strconv.Atoi(m[2])
			if ln < 1 || ln > len(lines) {
				continue
			}
			fm := genFuncRe.FindStringSubmatch(lines[ln-1])
			if fm == nil {
				continue
			}
			goName := strings.TrimSuffix(strings.TrimSuffix(fm[1], "_cond"), "_var")
			for _, fs := range ps.Funcs {
				for _, c := range fs.Clauses {
					if c.GoName == goName {
						found = true
						k := fmt.Sprintf("%s:%d", c.File, c.Line)
						if !seen[k] {
							seen[k] = true
							out = append(out, fmt.Sprintf("%s %s#%s names %s, but type %s has no field or method %s", k, fs.Key, labelOr(c, "clause"), m[3], m[4], m[5]))
						}
					}
				}
			}
		}
		if !found {
			return nil
		}
	}
	return out
}

// initValuesObligations: "initvalues VAR all|some RE": decided on the syntax of the package (go/ast): the string
// literals of the variable's initialiser (the variable must have one and must not be assigned anywhere else in
// the package).
func (eng *Engine) initValuesObligations(tag string) []*Obligation {
	var out []*Obligation
	var paths []string
	for p := range eng.ld.pkgSpecs {
		paths = append(paths, p)
	}
	sort.Strings(paths)
	for _, p := range paths {
		for _, rule := range eng.ld.pkgSpecs[p].InitValues {
			has := false
			for _, t := range rule.Tags {
				if t == tag {
					has = true
				}
			}
			if !has {
				continue
			}
			pk := eng.ld.byPath[p]
			mode, reText := rule.Allowed[0], rule.Allowed[1]
			re, err := regexp.Compile(reText)
			o := &Obligation{Name: "init#" + rule.Label, Func: "initialiser of " + rule.Callee, Kind: "structural", Label: rule.Label, Tags: rule.Tags,
				Pos: fmt.Sprintf("%s:%d", rule.File, rule.Line), Structural: true, Guard: "true",
				Goal: fmt.Sprintf("%s string literals of the initialiser of %s match %q", mode, rule.Callee, reText)}
			if err != nil {
				o.StructMsg = "bad expression: " + err.Error()
				out = append(out, o)
				continue
			}
			var lits []string
			foundDecl, assigned := false, false
			for _, file := range pk.Syntax {
				if strings.Contains(pk.Fset.Position(file.Pos()).Filename, "zz_verif_spec_gen") {
					continue
				}
				ast.Inspect(file, func(n ast.Node) bool {
					switch x := n.(type) {
					case *ast.ValueSpec:
						for i, nm := range x.Names {
							if nm.Name == rule.Callee && pk.TypesInfo.Defs[nm] != nil && pk.TypesInfo.Defs[nm].Parent() == pk.Types.Scope() && i < len(x.Values) {
								foundDecl = true
								ast.Inspect(x.Values[i], func(m ast.Node) bool {
									if bl, ok := m.(*ast.BasicLit); ok && bl.Kind == token.STRING {
										if kv, isKV := parentKeyOf(x.Values[i], bl); !(isKV && kv) {
											if sv, err := strconv.Unquote(bl.Value); err == nil {
												lits = append(lits, sv)
											}
										}
									}
									return true
								})
							}
						}
					case *ast.AssignStmt:
						for _, lhs := range x.Lhs {
							root := lhs
							for {
								if ix, ok := root.(*ast.IndexExpr); ok {
									root = ix.X
									continue
								}
								break
							}
							if id, ok := root.(*ast.Ident); ok && id.Name == rule.Callee {
								if obj := pk.TypesInfo.Uses[id]; obj != nil && obj.Parent() == pk.Types.Scope() {
									assigned = true
								}
							}
						}
					}
					return true
				})
			}
			var bad []string
			some := false
			for _, l := range lits {
				if re.MatchString(l) {
					some = true
				} else {
					bad = append(bad, strconv.Quote(l))
				}
			}
			switch {
			case !foundDecl:
				o.StructMsg = "no package-level variable " + rule.Callee + " with an initialiser"
			case assigned:
				o.StructMsg = rule.Callee + " is assigned outside its declaration: its initialiser does not say what it holds"
			case len(lits) == 0:
				o.StructMsg = "the initialiser of " + rule.Callee + " holds no string literal"
			case mode == "all" && len(bad) > 0:
				o.StructMsg = "values that do not match: " + strings.Join(bad, ", ")
			case mode == "some" && !some:
				o.StructMsg = "no value matches"
			default:
				o.StructOK = true
			}
			out = append(out, o)
		}
	}
	return out
}

// parentKeyOf: is lit the key of a key-value element of the composite literal root (map keys are not values)?
func parentKeyOf(root ast.Node, lit *ast.BasicLit) (isKey bool, found bool) {
	ast.Inspect(root, func(n ast.Node) bool {
		if kv, ok := n.(*ast.KeyValueExpr); ok && kv.Key == ast.Expr(lit) {
			isKey, found = true, true
			return false
		}
		return true
	})
	return
}

// frozenAfterObligations: "frozenafter F : CALLEE" rules, decided on the SSA form of F.
func (eng *Engine) frozenAfterObligations(tag string) []*Obligation {
	var out []*Obligation
	var paths []string
	for p := range eng.ld.pkgSpecs {
		paths = append(paths, p)
	}
	sort.Strings(paths)
	for _, p := range paths {
		for _, rule := range eng.ld.pkgSpecs[p].FrozenAfter {
			has := false
			for _, t := range rule.Tags {
				if t == tag {
					has = true
				}
			}
			if !has {
				continue
			}
			o := &Obligation{Name: "order#" + rule.Label, Func: filepath.Base(p) + "." + rule.Allowed[0], Kind: "structural", Label: rule.Label, Tags: rule.Tags,
				Pos: fmt.Sprintf("%s:%d", rule.File, rule.Line), Structural: true, Guard: "true",
				Goal: fmt.Sprintf("in %s nothing after a call of %s writes into a map or through a field, element or pointer", rule.Allowed[0], rule.Callee)}
			fn := eng.ld.lookupFunc(p, rule.Allowed[0])
			if fn == nil {
				o.StructMsg = "function not found (rule out of date): " + rule.Allowed[0]
				out = append(out, o)
				continue
			}
			var bad []string
			calls := 0
			seen := map[*ssa.BasicBlock]bool{}
			check := func(in ssa.Instruction) {
				at := eng.prog.Fset.Position(in.Pos()).String()
				switch x := in.(type) {
				case *ssa.MapUpdate:
					bad = append(bad, "map entry written at "+at)
				case *ssa.Store:
					if _, direct := x.Addr.(*ssa.Alloc); !direct {
						if _, global := x.Addr.(*ssa.Global); !global {
							bad = append(bad, "store through a field, element or pointer at "+at)
						}
					}
				}
			}
			var walk func(b *ssa.BasicBlock)
			walk = func(b *ssa.BasicBlock) {
				if seen[b] {
					return
				}
				seen[b] = true
				for _, in := range b.Instrs {
					check(in)
				}
				for _, s := range b.Succs {
					walk(s)
				}
			}
			for _, b := range fn.Blocks {
				for i, in := range b.Instrs {
					c, ok := in.(*ssa.Call)
					if !ok {
						continue
					}
					key := ""
					if c.Call.IsInvoke() {
						key = "(" + typeKey(c.Call.Value.Type()) + ")." + c.Call.Method.Name()
					} else if callee, ok := c.Call.Value.(*ssa.Function); ok {
						_, key = calleeKeyOf(callee)
					}
					if key == "" || !matchCallee(key, rule.Callee) {
						continue
					}
					calls++
					for _, in2 := range b.Instrs[i+1:] {
						check(in2)
					}
					for _, s := range b.Succs {
						walk(s)
					}
				}
			}
			sort.Strings(bad)
			o.StructOK = calls > 0 && len(bad) == 0
			if calls == 0 {
				o.StructMsg = "no call of " + rule.Callee + " in " + rule.Allowed[0] + ": rule out of date"
			} else if len(bad) > 0 {
				o.StructMsg = strings.Join(bad, "; ")
			}
			out = append(out, o)
		}
	}
	return out
}

// neverAssignedObligations: "neverassigned T.f, T.g" rules: no store instruction of /repo (tests apart) addresses one
// of the named fields; a composite literal or a whole-struct assignment of the enclosing type counts when it gives the
// field a value (SSA turns both into stores to the field's address or into a store of the struct value: the latter is
// reported for the struct types named).
func (eng *Engine) neverAssignedObligations(tag string) []*Obligation {
	var out []*Obligation
	var paths []string
	for p := range eng.ld.pkgSpecs {
		paths = append(paths, p)
	}
	sort.Strings(paths)
	for _, p := range paths {
		for _, rule := range eng.ld.pkgSpecs[p].NeverAssigned {
			has := false
			for _, t := range rule.Tags {
				if t == tag {
					has = true
				}
			}
			if !has {
				continue
			}
			pk := eng.ld.byPath[p]
			want := map[string]bool{}   // "T.f"
			structs := map[string]bool{} // "T"
			var missing []string
			for _, a := range rule.Allowed {
				parts := strings.SplitN(a, ".", 2)
				found := false
				if obj := pk.Types.Scope().Lookup(parts[0]); obj != nil && len(parts) == 2 {
					if st, ok := obj.Type().Underlying().(*types.Struct); ok {
						for i := 0; i < st.NumFields(); i++ {
							if st.Field(i).Name() == parts[1] {
								found = true
							}
						}
					}
				}
				if !found {
					missing = append(missing, a)
				}
				want[a] = true
				structs[parts[0]] = true
			}
			named := func(t types.Type) string {
				if pt, ok := t.Underlying().(*types.Pointer); ok {
					t = pt.Elem()
				}
				if n, ok := t.(*types.Named); ok && n.Obj().Pkg() != nil && n.Obj().Pkg().Path() == p {
					return n.Obj().Name()
				}
				return ""
			}
			var bad []string
			n := 0
			for _, fn := range eng.ld.repoFunctions() {
				pos := eng.prog.Fset.Position(fn.Pos())
				if strings.Contains(pos.Filename, "zz_verif_spec_gen") || strings.HasSuffix(pos.Filename, "_test.go") {
					continue
				}
				n++
				for _, b := range fn.Blocks {
					for _, in := range b.Instrs {
						st, ok := in.(*ssa.Store)
						if !ok {
							continue
						}
						at := fn.String() + " at " + eng.prog.Fset.Position(in.Pos()).String()
						if fa, ok := st.Addr.(*ssa.FieldAddr); ok {
							tn := named(fa.X.Type())
							if s2, ok := fa.X.Type().Underlying().(*types.Pointer).Elem().Underlying().(*types.Struct); ok && tn != "" {
								// ... unless the struct written is a non-escaping local copy
								var root ssa.Value = fa.X
								for {
									if f2, ok := root.(*ssa.FieldAddr); ok {
										root = f2.X
										continue
									}
									break
								}
								if al, ok := root.(*ssa.Alloc); ok && !al.Heap {
									continue
								}
								if want[tn+"."+s2.Field(fa.Field).Name()] {
									bad = append(bad, tn+"."+s2.Field(fa.Field).Name()+" assigned in "+at)
								}
							}
						}
						// a whole value of one of the struct types stored somewhere (x.Base = other): only when the value
						// stored goes somewhere else than into a local variable
						if tn := named(st.Val.Type()); tn != "" && structs[tn] {
							_, toLocal := st.Addr.(*ssa.Alloc) // a copy into a local variable changes no configuration
							if _, isPtr := st.Val.Type().Underlying().(*types.Pointer); !isPtr && !toLocal {
								bad = append(bad, "a whole "+tn+" value assigned in "+at)
							}
						}
					}
				}
			}
			sort.Strings(bad)
			o := &Obligation{Name: "stores#" + rule.Label, Func: "stores of /repo", Kind: "structural", Label: rule.Label, Tags: rule.Tags,
				Pos: fmt.Sprintf("%s:%d", rule.File, rule.Line), Structural: true, StructOK: len(bad) == 0 && len(missing) == 0 && n > 0,
				Goal: fmt.Sprintf("no function of /repo (%d searched) stores to %v", n, rule.Allowed), Guard: "true"}
			if len(missing) > 0 {
				o.StructMsg = "no such field: " + strings.Join(missing, ", ")
			} else if len(bad) > 0 {
				o.StructMsg = strings.Join(bad, "; ")
			}
			out = append(out, o)
		}
	}
	return out
}

// fieldTagObligations: "fieldtag T.f KEY VALUE" rules, decided on go/types.
func (eng *Engine) fieldTagObligations(tag string) []*Obligation {
	var out []*Obligation
	var paths []string
	for p := range eng.ld.pkgSpecs {
		paths = append(paths, p)
	}
	sort.Strings(paths)
	for _, p := range paths {
		for _, rule := range eng.ld.pkgSpecs[p].FieldTags {
			has := false
			for _, t := range rule.Tags {
				if t == tag {
					has = true
				}
			}
			if !has {
				continue
			}
			pk := eng.ld.byPath[p]
			o := &Obligation{Name: "types#" + rule.Label, Func: "types of " + p, Kind: "structural", Label: rule.Label, Tags: rule.Tags,
				Pos: fmt.Sprintf("%s:%d", rule.File, rule.Line), Structural: true, Guard: "true",
				Goal: fmt.Sprintf("field %s is read under %s:%q", rule.Callee, rule.Allowed[0], rule.Allowed[1])}
			parts := strings.SplitN(rule.Callee, ".", 2)
			o.StructMsg = "no such field"
			if obj := pk.Types.Scope().Lookup(parts[0]); obj != nil && len(parts) == 2 {
				if st, ok := obj.Type().Underlying().(*types.Struct); ok {
					for i := 0; i < st.NumFields(); i++ {
						if st.Field(i).Name() == parts[1] {
							got := reflect.StructTag(st.Tag(i)).Get(rule.Allowed[0])
							if i2 := strings.Index(got, ","); i2 >= 0 {
								got = got[:i2]
							}
							if got == "" && rule.Allowed[0] == "yaml" {
								got = strings.ToLower(parts[1]) // gopkg.in/yaml.v2: an untagged field is read under its lower-cased name
							}
							if got == rule.Allowed[1] {
								o.StructOK, o.StructMsg = true, ""
							} else {
								o.StructMsg = fmt.Sprintf("the tag says %s:%q", rule.Allowed[0], got)
							}
						}
					}
				}
			}
			out = append(out, o)
		}
	}
	return out
}
