package main

import (
	"fmt"
	"go/token"
	"go/types"
	"strings"

	"golang.org/x/tools/go/ssa"
)

func (e *Exec) execBlock(f *frame, b *ssa.BasicBlock, h *Heap, g string, loops map[*ssa.BasicBlock]*loopInfo) {
	for _, in := range b.Instrs {
		if g == "false" {
			break
		}
		h, g = e.execInstr(f, in, h, g)
	}
	f.heapOut[b] = h
	f.gOut[b] = g
	if g == "false" {
		return
	}
	for _, s := range b.Succs {
		if s.Dominates(b) { // back edge
			e.backEdge(f, b, s, h, and(g, edgeCond(b, s, f, e)))
		}
	}
}

func (e *Exec) set(f *frame, v ssa.Value, val Val) {
	val.Typ = v.Type()
	f.vals[v] = val
}

// named: give a value term a name unless inside a quantifier body.
func (e *Exec) named(prefix string, t types.Type, term string) string {
	if e.pure > 0 || len(term) < 40 {
		return term
	}
	return e.s.define(prefix, e.s.sortOf(t), term)
}

func (e *Exec) execInstr(f *frame, in ssa.Instruction, h *Heap, g string) (*Heap, string) {
	switch x := in.(type) {
	case *ssa.DebugRef:
	case *ssa.Phi:
		// handled at block entry (or loop header)
		if _, ok := f.vals[x]; !ok {
			f.vals[x] = e.freshVal("phi_"+x.Comment, x.Type())
		}
	case *ssa.Alloc:
		ref := e.newAlloc()
		et := x.Type().(*types.Pointer).Elem()
		e.storeObj(h, ref, et, e.zero(et))
		e.priv = append(e.priv, &privRef{ref: ref, comps: e.objComps(et)})
		e.set(f, x, Val{T: ref, A: &Addr{Ref: ref, Typ: et}, Allocs: []string{ref}})
	case *ssa.FieldAddr:
		base := e.val(f, x.X)
		a := e.addrOf(base)
		e.checkNonNil(f, a, &g, in)
		st := a.Typ
		na := &Addr{Ref: a.Ref, Comp: a.Comp, Path: append([]pathElem{}, a.Path...)}
		sti := st.Underlying().(*types.Struct)
		na.Typ = sti.Field(x.Field).Type()
		if a.Comp == "" && !isTimeType(st) {
			comp, _ := e.fieldComp(st, x.Field)
			na.Comp = comp
		} else {
			if a.Comp == "" {
				na.Comp = e.derefComp(st)
			}
			si := e.s.structOf(st)
			na.Path = append(na.Path, pathElem{acc: si.fields[x.Field], si: si, fidx: x.Field})
		}
		e.set(f, x, Val{T: e.refTerm(na), A: na, Allocs: base.Allocs})
	case *ssa.Field:
		base := e.val(f, x.X)
		si := e.s.structOf(x.X.Type())
		e.set(f, x, Val{T: fieldOf(si, x.Field, base.T)})
	case *ssa.IndexAddr:
		base := e.val(f, x.X)
		idx := e.val(f, x.Index)
		idx64 := e.toBV64(idx)
		var na *Addr
		switch bt := x.X.Type().Underlying().(type) {
		case *types.Slice:
			e.checkCond(f, "index", and(e.s.ixLe(e.s.ixLit(0), idx64), e.s.ixLt(idx64, "(sl_len "+base.T+")")), &g, in)
			comp := e.elemComp(bt.Elem())
			na = &Addr{Ref: "(sl_base " + base.T + ")", Comp: comp, Typ: bt.Elem(),
				Path: []pathElem{{idx: e.s.ixElem("(sl_off "+base.T+")", idx64), esort: e.s.sortOf(bt.Elem())}}}
			if base.A != nil && base.A.Comp == comp && len(base.A.Path) == 0 {
				// slice with a known backing array
				na.Ref = base.A.Ref
			}
		case *types.Pointer:
			at := bt.Elem().Underlying().(*types.Array)
			a := e.addrOf(base)
			e.checkNonNil(f, a, &g, in)
			e.checkCond(f, "index", and(e.s.ixLe(e.s.ixLit(0), idx64), e.s.ixLt(idx64, e.s.ixLit(at.Len()))), &g, in)
			na = &Addr{Ref: a.Ref, Comp: a.Comp, Path: append([]pathElem{}, a.Path...), Typ: at.Elem()}
			if a.Comp == "" {
				na.Comp = e.elemComp(at.Elem())
			}
			na.Path = append(na.Path, pathElem{idx: idx64, esort: e.s.sortOf(at.Elem())})
		default:
			panic("IndexAddr on " + x.X.Type().String())
		}
		e.set(f, x, Val{T: e.refTerm(na), A: na, Allocs: base.Allocs})
	case *ssa.Index:
		base := e.val(f, x.X)
		idx := e.val(f, x.Index)
		switch bt := x.X.Type().Underlying().(type) {
		case *types.Array:
			idx64 := e.toBV64(idx)
			e.checkCond(f, "index", and(e.s.ixLe(e.s.ixLit(0), idx64), e.s.ixLt(idx64, e.s.ixLit(bt.Len()))), &g, in)
			e.set(f, x, Val{T: sel(base.T, idx64)})
		case *types.Basic: // string
			ii := e.intView(idx)
			e.checkCond(f, "index", fmt.Sprintf("(and (<= 0 %s) (< %s (str.len %s)))", ii, ii, base.T), &g, in)
			code := fmt.Sprintf("(str.to_code (str.at %s %s))", base.T, ii)
			e.set(f, x, Val{T: "((_ int2bv 8) " + code + ")", I: code})
		default:
			e.set(f, x, e.freshVal("idx", x.Type()))
			e.drop("Index on " + x.X.Type().String())
		}
	case *ssa.UnOp:
		h, g = e.unop(f, x, h, g)
	case *ssa.BinOp:
		e.set(f, x, e.binop(f, x, &g))
	case *ssa.Store:
		addr := e.val(f, x.Addr)
		v := e.val(f, x.Val)
		a := e.addrOf(addr)
		e.checkNonNil(f, a, &g, in)
		e.guardedAccess(f, a, h, g, in, true)
		// storing a pointer to a private object into a non-private object publishes it; into a private one,
		// it is published together with that one later
		if len(v.Allocs) > 0 && !e.isPrivateRef(a.Ref) {
			e.escape(v)
		} else {
			e.noteHeld(a.Ref, v)
		}
		e.storeAt(h, a, v.T)
		e.recordShadow(a, v)
	case *ssa.Call:
		var res Val
		res, h, g = e.call(f, x, &x.Call, h, g)
		if x.Type() != nil {
			if tup, ok := x.Type().(*types.Tuple); ok && tup.Len() == 0 {
				break
			}
			e.set(f, x, res)
		}
	case *ssa.Extract:
		t := e.val(f, x.Tuple)
		if x.Index < len(t.Tup) {
			e.set(f, x, t.Tup[x.Index])
		} else {
			e.set(f, x, e.freshVal("ext", x.Type()))
		}
	case *ssa.MakeInterface:
		v := e.val(f, x.X)
		e.set(f, x, e.makeIface(v, x.X.Type()))
	case *ssa.ChangeInterface:
		v := e.val(f, x.X)
		e.set(f, x, v)
	case *ssa.ChangeType:
		v := e.val(f, x.X)
		e.convSite(f, x, x.X, v, h, g)
		if e.s.sortOf(x.X.Type()) != e.s.sortOf(x.Type()) {
			e.set(f, x, e.freshVal("ct", x.Type()))
			e.drop("ChangeType across sorts")
		} else {
			e.set(f, x, v)
		}
	case *ssa.Convert:
		e.convSite(f, x, x.X, e.val(f, x.X), h, g)
		e.set(f, x, e.convert(f, x, h))
	case *ssa.TypeAssert:
		e.typeAssert(f, x, &g, h)
	case *ssa.MakeSlice:
		ref := e.newAlloc()
		st := x.Type().Underlying().(*types.Slice)
		comp := e.elemComp(st.Elem())
		h.m[comp] = store(e.hget(h, comp), ref, fmt.Sprintf("((as const %s) %s)", e.s.arrSort(e.s.sortOf(st.Elem())), e.zero(st.Elem())))
		e.priv = append(e.priv, &privRef{ref: ref, comps: []string{comp}})
		ln := e.toBV64(e.val(f, x.Len))
		cp := e.toBV64(e.val(f, x.Cap))
		e.set(f, x, Val{T: fmt.Sprintf("(mk_slice %s %s %s %s)", ref, e.s.ixLit(0), ln, cp), Allocs: []string{ref}, A: &Addr{Ref: ref, Comp: comp, Typ: st.Elem()}})
	case *ssa.Slice:
		e.sliceOp(f, x, h, &g)
	case *ssa.MakeMap:
		ref := e.newAlloc()
		mt := x.Type().Underlying().(*types.Map)
		dc, vc := e.mapComps(mt)
		ks := e.s.sortOf(mt.Key())
		h.m[dc] = store(e.hget(h, dc), ref, fmt.Sprintf("((as const (Array %s Bool)) false)", ks))
		h.m[vc] = store(e.hget(h, vc), ref, fmt.Sprintf("((as const (Array %s %s)) %s)", ks, e.s.sortOf(mt.Elem()), e.zero(mt.Elem())))
		e.priv = append(e.priv, &privRef{ref: ref, comps: []string{dc, vc}})
		e.set(f, x, Val{T: ref, Allocs: []string{ref}})
	case *ssa.MapUpdate:
		m := e.val(f, x.Map)
		k := e.val(f, x.Key)
		v := e.val(f, x.Value)
		mt := x.Map.Type().Underlying().(*types.Map)
		dc, vc := e.mapComps(mt)
		e.guardObl(f, m.Guard, h, g, in, true)
		if len(v.Allocs) > 0 && !e.isPrivateRef(m.T) {
			e.escape(v)
		} else {
			e.noteHeld(m.T, v)
		}
		for _, vi := range e.eng.valInvs(mt.Elem()) {
			if e.wantClause(vi.c) && e.specDepth == 0 {
				e.callOrd["valinv:"+vi.c.Label]++
				t := e.evalSpec(e.eng.ld.specFunc(vi.fs, vi.c), []Val{v}, h, nil)
				e.addObligation(f, "valinv", vi.c, fmt.Sprintf("valinv.%s@%s%d", labelOr(vi.c, "inv"), f.path, e.callOrd["valinv:"+vi.c.Label]), g, t, in.Pos())
			}
		}
		e.noteWrite(dc, m.T)
		e.noteWrite(vc, m.T)
		h.m[dc] = e.nameIfBig("h", e.compSort[dc], store(e.hget(h, dc), m.T, store(sel(e.hget(h, dc), m.T), k.T, "true")))
		h.m[vc] = e.nameIfBig("h", e.compSort[vc], store(e.hget(h, vc), m.T, store(sel(e.hget(h, vc), m.T), k.T, v.T)))
	case *ssa.Lookup:
		m := e.val(f, x.X)
		k := e.val(f, x.Index)
		if mt, ok := x.X.Type().Underlying().(*types.Map); ok {
			dc, vc := e.mapComps(mt)
			e.guardObl(f, m.Guard, h, g, in, false)
			dom := sel(sel(e.hget(h, dc), m.T), k.T)
			vv := sel(sel(e.hget(h, vc), m.T), k.T)
			val := ite(dom, vv, e.zero(mt.Elem()))
			if e.specDepth == 0 && e.pure == 0 {
				for _, vi := range e.eng.valInvs(mt.Elem()) {
					t := e.evalSpec(e.eng.ld.specFunc(vi.fs, vi.c), []Val{{T: vv, Typ: mt.Elem()}}, h, nil)
					e.s.assert(implies(and(g, dom), t))
				}
			}
			lkv := Val{T: e.named("lk", mt.Elem(), val), Typ: mt.Elem()}
			if e.pure == 0 {
				// what a map holds existed before (or was published): it is not one of this function's
				// still-private allocations (a variadic pack, a fresh buffer)
				e.notPrivate(lkv)
				if _, isSl := mt.Elem().Underlying().(*types.Slice); isSl {
					e.wf(lkv)
				}
			}
			if x.CommaOk {
				e.set(f, x, Val{Tup: []Val{lkv, {T: dom, Typ: types.Typ[types.Bool]}}})
			} else {
				e.set(f, x, Val{T: lkv.T})
			}
		} else {
			// string index handled as Index; Lookup on string
			ii := e.intView(k)
			code := fmt.Sprintf("(str.to_code (str.at %s %s))", m.T, ii)
			e.set(f, x, Val{T: "((_ int2bv 8) " + code + ")", I: code})
		}
	case *ssa.Range:
		v := e.val(f, x.X)
		e.set(f, x, Val{T: v.T, Dyn: &v, DynT: x.X.Type(), Guard: v.Guard})
	case *ssa.Next:
		it := e.val(f, x.Iter)
		tup := x.Type().(*types.Tuple)
		okv := e.freshVal("next_ok", types.Typ[types.Bool])
		mk := func(p string, t types.Type) Val {
			if b, ok := t.(*types.Basic); ok && b.Kind() == types.Invalid {
				return Val{Typ: t}
			}
			return e.freshVal(p, t)
		}
		kv := mk("next_k", tup.At(1).Type())
		vv := mk("next_v", tup.At(2).Type())
		if it.DynT != nil {
			if mt, ok := it.DynT.Underlying().(*types.Map); ok && !x.IsString {
				dc, vc := e.mapComps(mt)
				e.guardObl(f, it.Guard, h, g, in, false)
				if kv.T != "" && vv.T != "" {
					e.s.assert(implies(okv.T, and(sel(sel(e.hget(h, dc), it.T), kv.T), eq(vv.T, sel(sel(e.hget(h, vc), it.T), kv.T)))))
				} else if kv.T != "" {
					e.s.assert(implies(okv.T, sel(sel(e.hget(h, dc), it.T), kv.T)))
				}
			}
		}
		e.set(f, x, Val{Tup: []Val{okv, kv, vv}})
	case *ssa.MakeClosure:
		fn := x.Fn.(*ssa.Function)
		var bs []Val
		var allocs []string
		for _, b := range x.Bindings {
			bv := e.val(f, b)
			bs = append(bs, bv)
			allocs = append(allocs, bv.Allocs...)
		}
		ref := e.newAlloc()
		e.set(f, x, Val{T: ref, Clo: &closure{fn: fn, bindings: bs}, Allocs: allocs})
	case *ssa.Defer:
		d := deferred{call: &x.Call, block: x.Block(), instr: x}
		if !x.Call.IsInvoke() {
			d.fnv = e.val(f, x.Call.Value)
		} else {
			d.fnv = e.val(f, x.Call.Value)
		}
		for _, a := range x.Call.Args {
			d.args = append(d.args, e.val(f, a))
		}
		d.guardAt = g
		f.defers = append(f.defers, d)
	case *ssa.RunDefers:
		for i := len(f.defers) - 1; i >= 0; i-- {
			d := f.defers[i]
			if d.block.Dominates(x.Block()) {
				_, h, g = e.callWith(f, d.instr, d.call, d.fnv, d.args, h, g)
			} else if f.gOut[d.block] != "false" && d.guardAt != "false" {
				// registered on some paths only: it runs exactly when execution passed its defer statement
				gd := and(g, d.guardAt)
				_, h2, g2 := e.callWith(f, d.instr, d.call, d.fnv, d.args, h.clone(), gd)
				h = e.mergeHeaps([]*Heap{h2, h}, []string{d.guardAt, not(d.guardAt)})
				if g2 == "false" {
					g = e.nameBool("g", and(g, not(d.guardAt)))
				}
			}
		}
	case *ssa.Go:
		if e.topSpec != nil && e.topSpec.SpawnChecked && !x.Call.IsInvoke() && e.specDepth == 0 && e.pure == 0 {
			// "spawned checked": the spawned body is run once from the state of the go statement, so that the
			// call-site clauses of the contract under verification (atcall ..., atcall chansend ...) are checked
			// inside it; nothing it does is kept (the starter continues from its own state, as before)
			fnv := e.val(f, x.Call.Value)
			var args []Val
			for _, a := range x.Call.Args {
				args = append(args, e.val(f, a))
			}
			var sfn *ssa.Function
			var binds []Val
			if fnv.Clo != nil {
				sfn, binds = fnv.Clo.fn, fnv.Clo.bindings
			} else if fn, ok := x.Call.Value.(*ssa.Function); ok {
				sfn = fn
			} else if fnv.Fn != nil {
				sfn = fnv.Fn
			}
			if sfn != nil && len(sfn.Blocks) > 0 {
				savedPriv := append([]*privRef{}, e.priv...)
				savedAll := append([]string{}, e.allAllocs...)
				var rt types.Type = sfn.Signature.Results()
				e.inline(f, in, sfn, args, binds, rt, h.clone(), g)
				e.priv, e.allAllocs = savedPriv, savedAll
				e.eng.assumes["goroutine bodies started by "+e.topFrame.fn.Name()+" are checked against its call-site clauses from the state of the go statement (interleavings with the starter are not explored)"] = true
			} else {
				e.drop("go statement (spawned body not followed)")
			}
		} else {
			e.drop("go statement (spawned body not followed)")
		}
		for _, a := range x.Call.Args {
			e.escape(e.val(f, a))
		}
		if !x.Call.IsInvoke() {
			e.escape(e.val(f, x.Call.Value))
		}
	case *ssa.Send:
		e.escape(e.val(f, x.X))
		e.chanSendAsserts(f, in, e.val(f, x.X), h, g)
		e.drop("channel send")
	case *ssa.Select:
		e.set(f, x, e.freshVal("select", x.Type()))
		e.drop("select")
	case *ssa.MakeChan:
		ref := e.newAlloc()
		e.set(f, x, Val{T: ref})
	case *ssa.Panic:
		return h, "false"
	case *ssa.Return:
		var vs []Val
		for _, r := range x.Results {
			vs = append(vs, e.val(f, r))
		}
		f.rets = append(f.rets, retState{guard: g, heap: h.clone(), vals: vs})
	case *ssa.If, *ssa.Jump:
	case *ssa.SliceToArrayPointer, *ssa.MultiConvert:
		e.set(f, x.(ssa.Value), e.freshVal("conv", x.(ssa.Value).Type()))
		e.drop(fmt.Sprintf("%T", x))
	default:
		if v, ok := in.(ssa.Value); ok {
			e.set(f, v, e.freshVal("unk", v.Type()))
		}
		e.drop(fmt.Sprintf("instruction %T", in))
	}
	return h, g
}

// mayBePrivateRef: the reference term is, or may evaluate to (a merge of branches), a still-private allocation.
func (e *Exec) mayBePrivateRef(ref string) bool {
	for _, p := range e.priv {
		if p.ref == ref || strings.Contains(ref, p.ref) {
			return true
		}
	}
	return false
}

func (e *Exec) isPrivateRef(ref string) bool {
	for _, p := range e.priv {
		if p.ref == ref {
			return true
		}
	}
	return false
}

// shadow: structural info (closures, addresses, dynamic types) of values stored in private cells.
func (e *Exec) recordShadow(a *Addr, v Val) {
	if e.shadow == nil {
		e.shadow = map[string]Val{}
	}
	key := a.Ref + "|" + a.Comp + "|" + pathKey(a.Path)
	if v.Clo != nil || v.A != nil || v.Dyn != nil || v.Fn != nil || len(v.Allocs) > 0 || v.I != "" {
		if e.isPrivateRef(a.Ref) {
			e.shadow[key] = v
			return
		}
	}
	delete(e.shadow, key)
}

func pathKey(p []pathElem) string {
	var b strings.Builder
	for _, x := range p {
		b.WriteString(x.acc + "[" + x.idx + "]")
	}
	return b.String()
}

// toBV64 converts an integer value to the index sort (64-bit vector, or Int in math mode).
func (e *Exec) toBV64(v Val) string {
	b, ok := v.Typ.Underlying().(*types.Basic)
	if !ok {
		return v.T
	}
	if e.s.mathInt {
		if e.s.isMath(v.Typ) {
			return v.T
		}
		return e.intView(v)
	}
	w := intWidth(b)
	if w == 64 || w == 0 {
		return v.T
	}
	if isUnsigned(v.Typ) {
		return fmt.Sprintf("((_ zero_extend %d) %s)", 64-w, v.T)
	}
	return fmt.Sprintf("((_ sign_extend %d) %s)", 64-w, v.T)
}

func (e *Exec) makeIface(v Val, t types.Type) Val {
	if _, ok := t.Underlying().(*types.Interface); ok {
		return v
	}
	id := e.s.typeID(t)
	sort := e.s.sortOf(t)
	var ref string
	if sort == "Ref" {
		ref = v.T
	} else {
		bn, un := "box_"+sanitize(sort), "unbox_"+sanitize(sort)
		e.s.declFun(bn, []string{sort}, "Ref")
		e.s.declFun(un, []string{"Ref"}, sort)
		ref = "(" + bn + " " + v.T + ")"
		if e.pure == 0 {
			e.s.assert(eq("("+un+" "+ref+")", v.T))
		}
	}
	vv := v
	return Val{T: fmt.Sprintf("(mk_iface %d %s)", id, ref), Dyn: &vv, DynT: t, Allocs: v.Allocs}
}

func (e *Exec) unboxAs(iface string, t types.Type) string {
	sort := e.s.sortOf(t)
	if sort == "Ref" {
		return "(if_ref " + iface + ")"
	}
	bn, un := "box_"+sanitize(sort), "unbox_"+sanitize(sort)
	e.s.declFun(bn, []string{sort}, "Ref")
	e.s.declFun(un, []string{"Ref"}, sort)
	if strings.HasPrefix(iface, "(mk_iface ") {
		parts := splitSexp(iface[1 : len(iface)-1])
		if len(parts) == 3 && strings.HasPrefix(parts[2], "("+bn+" ") {
			return parts[2][len(bn)+2 : len(parts[2])-1]
		}
	}
	return "(" + un + " (if_ref " + iface + "))"
}

func (e *Exec) typeAssert(f *frame, x *ssa.TypeAssert, g *string, h *Heap) {
	v := e.val(f, x.X)
	var ok string
	var res Val
	if _, isIface := x.AssertedType.Underlying().(*types.Interface); isIface {
		// interface-to-interface: decided statically when the dynamic type is known
		if v.DynT != nil {
			if types.Implements(v.DynT, x.AssertedType.Underlying().(*types.Interface)) {
				ok = "true"
			} else {
				ok = "false"
			}
		} else {
			// unknown: depends only on the dynamic type
			fn := "implements_" + sanitize(typeKey(x.AssertedType))
			e.s.declFun(fn, []string{"Int"}, "Bool")
			ok = fmt.Sprintf("(and (not (= (if_tag %s) 0)) (%s (if_tag %s)))", v.T, fn, v.T)
		}
		res = v
	} else {
		id := e.s.typeID(x.AssertedType)
		ok = fmt.Sprintf("(= (if_tag %s) %d)", v.T, id)
		if v.DynT != nil {
			if types.Identical(v.DynT, x.AssertedType) {
				ok = "true"
			} else {
				ok = "false"
			}
		}
		res = Val{T: e.unboxAs(v.T, x.AssertedType), Typ: x.AssertedType}
		if v.Dyn != nil && ok == "true" {
			res = *v.Dyn
		}
	}
	if x.CommaOk {
		if ok != "true" && ok != "false" {
			ok = e.nameBool("ta", ok)
		}
		res.Typ = x.AssertedType
		e.set(f, x, Val{Tup: []Val{res, {T: ok, Typ: types.Typ[types.Bool]}}})
		return
	}
	e.checkCond(f, "typeassert", ok, g, x)
	e.set(f, x, res)
}

func (e *Exec) unop(f *frame, x *ssa.UnOp, h *Heap, g string) (*Heap, string) {
	v := e.val(f, x.X)
	switch x.Op {
	case token.MUL: // load
		a := e.addrOf(v)
		e.checkNonNil(f, a, &g, x)
		gu := e.guardedAccess(f, a, h, g, x, false)
		e.heapInv(a, h)
		key := a.Ref + "|" + a.Comp + "|" + pathKey(a.Path)
		term := e.load(h, a)
		out := Val{T: e.named("ld", x.Type(), term)}
		if sh, ok := e.shadow[key]; ok && (sh.T == term || sh.T == out.T) {
			out = sh
		}
		out.Typ = x.Type()
		if _, isStruct := x.Type().Underlying().(*types.Struct); isStruct && len(out.Allocs) == 0 && isAllocRef(a.Ref) {
			// a whole struct value read back from one of this function's objects carries whatever allocations were
			// stored into that object field by field (a composite literal is built that way and then copied):
			// stored somewhere else, and published from there, they are published too
			out.Allocs = append(out.Allocs, e.holds[a.Ref]...)
		}
		if _, isMap := x.Type().Underlying().(*types.Map); isMap && gu != nil {
			out.Guard = gu
		}
		// what is read from an object that existed before cannot be one of this function's still-private
		// allocations; what is read back from a private object is whatever this function stored there
		if !e.mayBePrivateRef(a.Ref) {
			e.notPrivate(out)
		}
		if _, isSl := x.Type().Underlying().(*types.Slice); isSl && e.pure == 0 && out.A == nil {
			e.wf(out)
		} else if _, isNamed := x.Type().(*types.Named); isNamed && e.pure == 0 && e.specDepth == 0 {
			if _, isStruct := x.Type().Underlying().(*types.Struct); isStruct {
				e.wf(out)
			}
		}
		e.set(f, x, out)
	case token.NOT:
		e.set(f, x, Val{T: not(v.T)})
	case token.SUB:
		if isFloatType(x.Type()) {
			e.set(f, x, Val{T: "(fp.neg " + v.T + ")"})
		} else if e.s.isMath(x.Type()) {
			e.set(f, x, Val{T: "(- " + v.T + ")", I: "(- " + v.T + ")"})
		} else {
			r := Val{T: "(bvneg " + v.T + ")"}
			if v.I != "" {
				r.I = "(- " + v.I + ")"
			}
			e.set(f, x, r)
		}
	case token.XOR:
		e.set(f, x, Val{T: "(bvnot " + v.T + ")"})
	case token.ARROW:
		e.set(f, x, e.freshVal("recv", x.Type()))
		e.drop("channel receive")
	default:
		e.set(f, x, e.freshVal("unop", x.Type()))
		e.drop("unop " + x.Op.String())
	}
	return h, g
}

func (e *Exec) binop(f *frame, x *ssa.BinOp, g *string) Val {
	a, b := e.val(f, x.X), e.val(f, x.Y)
	t := x.X.Type()
	out := Val{}
	switch {
	case isStringType(t):
		switch x.Op {
		case token.ADD:
			out.T = "(str.++ " + a.T + " " + b.T + ")"
		case token.EQL:
			out.T = eq(a.T, b.T)
		case token.NEQ:
			out.T = not(eq(a.T, b.T))
		case token.LSS:
			out.T = "(str.< " + a.T + " " + b.T + ")"
		case token.LEQ:
			out.T = "(str.<= " + a.T + " " + b.T + ")"
		case token.GTR:
			out.T = "(str.< " + b.T + " " + a.T + ")"
		case token.GEQ:
			out.T = "(str.<= " + b.T + " " + a.T + ")"
		}
	case isFloatType(t):
		ops := map[token.Token]string{token.ADD: "fp.add RNE", token.SUB: "fp.sub RNE", token.MUL: "fp.mul RNE", token.QUO: "fp.div RNE",
			token.EQL: "fp.eq", token.LSS: "fp.lt", token.LEQ: "fp.leq", token.GTR: "fp.gt", token.GEQ: "fp.geq"}
		if x.Op == token.NEQ {
			out.T = "(not (fp.eq " + a.T + " " + b.T + "))"
		} else if op, ok := ops[x.Op]; ok {
			out.T = "(" + op + " " + a.T + " " + b.T + ")"
		}
	case e.s.isMath(t):
		out = e.mathBinop(f, x, a, b, g)
	case isIntType(t) || isTimeType(t):
		uns := isUnsigned(t)
		w := 64
		if bb, ok := t.Underlying().(*types.Basic); ok && !isTimeType(t) {
			w = intWidth(bb)
		}
		bothI := a.I != "" && b.I != ""
		cmpI := func(op string) string { return "(" + op + " " + a.I + " " + b.I + ")" }
		switch x.Op {
		case token.ADD:
			out.T = "(bvadd " + a.T + " " + b.T + ")"
			if bothI {
				out.I = "(+ " + a.I + " " + b.I + ")"
			}
		case token.SUB:
			out.T = "(bvsub " + a.T + " " + b.T + ")"
			if bothI {
				out.I = "(- " + a.I + " " + b.I + ")"
			}
		case token.MUL:
			out.T = "(bvmul " + a.T + " " + b.T + ")"
		case token.QUO:
			e.checkCond(f, "divzero", not(eq(b.T, bvLitInt(0, w))), g, x)
			if uns {
				out.T = "(bvudiv " + a.T + " " + b.T + ")"
			} else {
				out.T = "(bvsdiv " + a.T + " " + b.T + ")"
			}
		case token.REM:
			e.checkCond(f, "divzero", not(eq(b.T, bvLitInt(0, w))), g, x)
			if uns {
				out.T = "(bvurem " + a.T + " " + b.T + ")"
			} else {
				out.T = "(bvsrem " + a.T + " " + b.T + ")"
			}
		case token.AND:
			out.T = "(bvand " + a.T + " " + b.T + ")"
		case token.OR:
			out.T = "(bvor " + a.T + " " + b.T + ")"
		case token.XOR:
			out.T = "(bvxor " + a.T + " " + b.T + ")"
		case token.AND_NOT:
			out.T = "(bvand " + a.T + " (bvnot " + b.T + "))"
		case token.SHL, token.SHR:
			sh := e.resize(b, x.Y.Type(), w, true)
			op := "bvshl"
			if x.Op == token.SHR {
				op = "bvlshr"
				if !uns {
					op = "bvashr"
				}
			}
			out.T = "(" + op + " " + a.T + " " + sh + ")"
		case token.EQL:
			if bothI && (strings.Contains(a.I, "str.") || strings.Contains(b.I, "str.") || strings.HasPrefix(a.I, "q") || strings.HasPrefix(b.I, "q")) {
				out.T = cmpI("=")
			} else {
				out.T = eq(a.T, b.T)
			}
		case token.NEQ:
			if bothI && (strings.Contains(a.I, "str.") || strings.Contains(b.I, "str.") || strings.HasPrefix(a.I, "q") || strings.HasPrefix(b.I, "q")) {
				out.T = not(cmpI("="))
			} else {
				out.T = not(eq(a.T, b.T))
			}
		case token.LSS, token.LEQ, token.GTR, token.GEQ:
			if bothI && (strings.Contains(a.I, "str.") || strings.Contains(b.I, "str.") || strings.HasPrefix(a.I, "q") || strings.HasPrefix(b.I, "q")) {
				op := map[token.Token]string{token.LSS: "<", token.LEQ: "<=", token.GTR: ">", token.GEQ: ">="}[x.Op]
				out.T = cmpI(op)
			} else {
				sop := map[token.Token]string{token.LSS: "bvslt", token.LEQ: "bvsle", token.GTR: "bvsgt", token.GEQ: "bvsge"}[x.Op]
				if uns {
					sop = map[token.Token]string{token.LSS: "bvult", token.LEQ: "bvule", token.GTR: "bvugt", token.GEQ: "bvuge"}[x.Op]
				}
				out.T = "(" + sop + " " + a.T + " " + b.T + ")"
			}
		}
	default:
		// bool, pointers, interfaces, slices(nil), structs
		var t1 string
		switch t.Underlying().(type) {
		case *types.Slice:
			// only comparison with nil is legal
			sv := a
			if c, ok := x.X.(*ssa.Const); ok && c.IsNil() {
				sv = b
			}
			t1 = "(= (sl_base " + sv.T + ") null)"
		case *types.Interface:
			if c, ok := x.Y.(*ssa.Const); ok && c.IsNil() {
				t1 = "(= (if_tag " + a.T + ") 0)"
			} else if c, ok := x.X.(*ssa.Const); ok && c.IsNil() {
				t1 = "(= (if_tag " + b.T + ") 0)"
			} else {
				t1 = eq(a.T, b.T)
			}
		default:
			t1 = eq(a.T, b.T)
		}
		switch x.Op {
		case token.EQL:
			out.T = t1
		case token.NEQ:
			out.T = not(t1)
		case token.AND, token.LAND:
			out.T = and(a.T, b.T)
		case token.OR, token.LOR:
			out.T = or(a.T, b.T)
		}
	}
	if out.T == "" {
		e.drop("binop " + x.Op.String() + " on " + t.String())
		return e.freshVal("binop", x.Type())
	}
	out.T = e.named("b", x.Type(), out.T)
	return out
}

// resize converts an integer term to width w.
func (e *Exec) resize(v Val, from types.Type, w int, unsigned bool) string {
	fw := 64
	if bb, ok := from.Underlying().(*types.Basic); ok {
		fw = intWidth(bb)
	}
	switch {
	case fw == w:
		return v.T
	case fw > w:
		return fmt.Sprintf("((_ extract %d 0) %s)", w-1, v.T)
	default:
		if isUnsigned(from) || unsigned {
			return fmt.Sprintf("((_ zero_extend %d) %s)", w-fw, v.T)
		}
		return fmt.Sprintf("((_ sign_extend %d) %s)", w-fw, v.T)
	}
}

func (e *Exec) convert(f *frame, x *ssa.Convert, h *Heap) Val {
	v := e.val(f, x.X)
	from, to := x.X.Type(), x.Type()
	switch {
	case isIntType(from) && isIntType(to) && (e.s.isMath(from) || e.s.isMath(to)):
		if e.s.isMath(from) && e.s.isMath(to) {
			return v
		}
		if e.s.isMath(from) {
			tb := to.Underlying().(*types.Basic)
			return Val{T: fmt.Sprintf("((_ int2bv %d) %s)", intWidth(tb), v.T)}
		}
		iv := e.intView(v)
		return Val{T: iv, I: iv}
	case isIntType(from) && isIntType(to):
		tb := to.Underlying().(*types.Basic)
		out := Val{T: e.resize(v, from, intWidth(tb), false)}
		fb := from.Underlying().(*types.Basic)
		if v.I != "" && intWidth(tb) >= intWidth(fb) && (isUnsigned(from) == isUnsigned(to) || (isUnsigned(from) && intWidth(tb) > intWidth(fb)) || strings.Contains(v.I, "str.")) {
			out.I = v.I
		}
		return out
	case isIntType(from) && isFloatType(to):
		if isUnsigned(from) {
			return Val{T: "((_ to_fp_unsigned 11 53) RNE " + e.toBV64(v) + ")"}
		}
		return Val{T: "((_ to_fp 11 53) RNE " + e.toBV64(v) + ")"}
	case isFloatType(from) && isIntType(to):
		tb := to.Underlying().(*types.Basic)
		w := intWidth(tb)
		if isUnsigned(to) && w == 64 {
			// amd64 lowering of float64 -> uint64
			two63 := "((_ to_fp 11 53) RNE 9223372036854775808.0)"
			lo := "((_ fp.to_sbv 64) RTZ " + v.T + ")"
			hi := "(bvxor ((_ fp.to_sbv 64) RTZ (fp.sub RNE " + v.T + " " + two63 + ")) #x8000000000000000)"
			e.eng.assumes["float64->uint64 conversion modelled as lowered on amd64"] = true
			return Val{T: e.named("f2u", to, "(ite (fp.lt "+v.T+" "+two63+") "+lo+" "+hi+")")}
		}
		if isUnsigned(to) {
			return Val{T: fmt.Sprintf("((_ extract %d 0) ((_ fp.to_sbv 64) RTZ %s))", w-1, v.T)}
		}
		return Val{T: fmt.Sprintf("((_ fp.to_sbv %d) RTZ %s)", w, v.T)}
	case isFloatType(from) && isFloatType(to):
		return v
	case isStringType(from) && isStringType(to):
		return v
	case isStringType(to):
		if sl, ok := from.Underlying().(*types.Slice); ok {
			// string(bytes): a function of the content
			comp := e.elemComp(sl.Elem())
			fn := "bytes2str"
			e.s.declFun(fn, []string{e.s.arrSort(e.s.sortOf(sl.Elem())), e.s.ixSort(), e.s.ixSort()}, e.s.strSort())
			return Val{T: fmt.Sprintf("(%s %s (sl_off %s) (sl_len %s))", fn, sel(e.hget(h, comp), "(sl_base "+v.T+")"), v.T, v.T)}
		}
		if isIntType(from) {
			return Val{T: "(str.from_code " + e.intView(v) + ")"}
		}
	case isStringType(from):
		if sl, ok := to.Underlying().(*types.Slice); ok {
			fn := "str2bytes_" + sanitize(e.s.sortOf(sl.Elem()))
			e.s.declFun(fn, []string{e.s.strSort()}, e.s.arrSort(e.s.sortOf(sl.Elem())))
			ref := e.newAlloc()
			comp := e.elemComp(sl.Elem())
			h.m[comp] = store(e.hget(h, comp), ref, "("+fn+" "+v.T+")")
			e.priv = append(e.priv, &privRef{ref: ref, comps: []string{comp}})
			ln := "((_ int2bv 64) (str.len " + v.T + "))"
			if e.s.mathInt {
				ln = "(str.len " + v.T + ")"
			}
			// converting back yields the same string
			b2s := "bytes2str"
			e.s.declFun(b2s, []string{e.s.arrSort(e.s.sortOf(sl.Elem())), e.s.ixSort(), e.s.ixSort()}, e.s.strSort())
			if e.pure == 0 {
				e.s.assert(fmt.Sprintf("(= (%s (%s %s) %s %s) %s)", b2s, fn, v.T, e.s.ixLit(0), ln, v.T))
			}
			return Val{T: fmt.Sprintf("(mk_slice %s %s %s %s)", ref, e.s.ixLit(0), ln, ln), Allocs: []string{ref}}
		}
	case e.s.sortOf(from) == e.s.sortOf(to):
		return v
	}
	e.drop("convert " + from.String() + " -> " + to.String())
	return e.freshVal("conv", to)
}

func (e *Exec) sliceOp(f *frame, x *ssa.Slice, h *Heap, g *string) {
	v := e.val(f, x.X)
	z := e.s.ixLit(0)
	lo := z
	if x.Low != nil {
		lo = e.toBV64(e.val(f, x.Low))
	}
	switch bt := x.X.Type().Underlying().(type) {
	case *types.Basic: // string
		var loI, hiI string
		loI = "0"
		if x.Low != nil {
			loI = e.intView(e.val(f, x.Low))
		}
		hiI = "(str.len " + v.T + ")"
		if x.High != nil {
			hiI = e.intView(e.val(f, x.High))
		}
		e.checkCond(f, "slice", fmt.Sprintf("(and (<= 0 %s) (<= %s %s) (<= %s (str.len %s)))", loI, loI, hiI, hiI, v.T), g, x)
		e.set(f, x, Val{T: fmt.Sprintf("(str.substr %s %s (- %s %s))", v.T, loI, hiI, loI)})
	case *types.Slice:
		hi := "(sl_len " + v.T + ")"
		if x.High != nil {
			hi = e.toBV64(e.val(f, x.High))
		}
		cp := "(sl_cap " + v.T + ")"
		e.checkCond(f, "slice", and(e.s.ixLe(z, lo), e.s.ixLe(lo, hi), e.s.ixLe(hi, cp)), g, x)
		newcap := e.s.ixSub(cp, lo)
		if x.Max != nil {
			newcap = e.s.ixSub(e.toBV64(e.val(f, x.Max)), lo)
		}
		out := Val{T: e.named("sl", x.Type(), fmt.Sprintf("(mk_slice (sl_base %s) %s %s %s)", v.T, e.s.ixAdd("(sl_off "+v.T+")", lo), e.s.ixSub(hi, lo), newcap)), Allocs: v.Allocs}
		e.set(f, x, out)
	case *types.Pointer:
		at := bt.Elem().Underlying().(*types.Array)
		a := e.addrOf(v)
		n := e.s.ixLit(at.Len())
		hi := n
		if x.High != nil {
			hi = e.toBV64(e.val(f, x.High))
		}
		e.checkCond(f, "slice", and(e.s.ixLe(z, lo), e.s.ixLe(lo, hi), e.s.ixLe(hi, n)), g, x)
		base := a.Ref
		var sa *Addr
		if a.Comp != "" {
			base = e.refTerm(a)
		} else {
			sa = &Addr{Ref: a.Ref, Comp: e.elemComp(at.Elem()), Typ: at.Elem()}
		}
		e.set(f, x, Val{T: e.named("sl", x.Type(), fmt.Sprintf("(mk_slice %s %s %s %s)", base, lo, e.s.ixSub(hi, lo), e.s.ixSub(n, lo))), Allocs: v.Allocs, A: sa})
	default:
		e.set(f, x, e.freshVal("slice", x.Type()))
		e.drop("slice of " + x.X.Type().String())
	}
}

// ---------------------------------------------------------------- implicit checks

func (e *Exec) checkNonNil(f *frame, a *Addr, g *string, in ssa.Instruction) {
	if !e.nopanic || a.Comp != "" && strings.HasPrefix(a.Comp, "G|") {
		return
	}
	if isAllocRef(a.Ref) {
		return
	}
	kind := "nil"
	if strings.HasPrefix(a.Ref, "r_") {
		kind = "nilresult" // the pointer is the result of a call made by this function
	}
	e.checkCond(f, kind, not(eq(a.Ref, "null")), g, in)
}

func (e *Exec) checkCond(f *frame, kind, cond string, g *string, in ssa.Instruction) {
	if !e.nopanic || e.specDepth > 0 || e.pure > 0 {
		return
	}
	if cond == "true" {
		return
	}
	if ks := e.topSpec.NoPanicKinds; ks != nil && !ks[kind] {
		// a kind of run-time check this contract does not ask for: execution simply continues where it passes
		*g = e.nameBool("g", and(*g, cond))
		return
	}
	e.callOrd["nopanic."+kind]++
	pos := e.eng.prog.Fset.Position(in.Pos())
	name := fmt.Sprintf("nopanic.%s@%s%d", kind, f.path, e.callOrd["nopanic."+kind])
	e.addObligationRaw(f, "nopanic", name, "nopanic", e.topSpec.NoPanicT, *g, cond, in.Pos(), false)
	_ = pos
	*g = e.nameBool("g", and(*g, cond))
}

// mathBinop: Go int as mathematical integer; every arithmetic result carries a no-overflow obligation.
func (e *Exec) mathBinop(f *frame, x *ssa.BinOp, a, b Val, g *string) Val {
	out := Val{}
	inRange := func(t string) string {
		return "(and (<= (- 9223372036854775808) " + t + ") (<= " + t + " 9223372036854775807))"
	}
	arith := func(op string) {
		out.T = "(" + op + " " + a.T + " " + b.T + ")"
		out.I = out.T
		if e.specDepth == 0 && e.pure == 0 && e.quiet == 0 {
			e.callOrd["nooverflow"]++
			e.addObligationRaw(f, "nooverflow", fmt.Sprintf("nooverflow@%s%d", f.path, e.callOrd["nooverflow"]), "", nil, *g, inRange(out.T), x.Pos(), false)
		}
	}
	switch x.Op {
	case token.ADD:
		arith("+")
	case token.SUB:
		arith("-")
	case token.MUL:
		arith("*")
	case token.EQL:
		out.T = eq(a.T, b.T)
	case token.NEQ:
		out.T = not(eq(a.T, b.T))
	case token.LSS:
		out.T = "(< " + a.T + " " + b.T + ")"
	case token.LEQ:
		out.T = "(<= " + a.T + " " + b.T + ")"
	case token.GTR:
		out.T = "(> " + a.T + " " + b.T + ")"
	case token.GEQ:
		out.T = "(>= " + a.T + " " + b.T + ")"
	case token.QUO, token.REM:
		// Go truncates toward zero
		e.checkCond(f, "divzero", not(eq(b.T, "0")), g, x)
		q := fmt.Sprintf("(ite (>= %s 0) (div %s %s) (- (div (- %s) %s)))", a.T, a.T, b.T, a.T, b.T)
		if x.Op == token.QUO {
			out.T = q
		} else {
			out.T = fmt.Sprintf("(- %s (* %s %s))", a.T, b.T, q)
		}
		out.I = out.T
	}
	return out
}

// heapInv assumes the trusted invariant of a library object the first time one of its fields is read.
func (e *Exec) heapInv(a *Addr, h *Heap) {
	if e.pure > 0 || e.specDepth > 0 || !strings.HasPrefix(a.Comp, "F|") {
		return
	}
	parts := strings.Split(a.Comp, "|")
	fs := e.eng.specs["heapinv:"+parts[1]]
	if fs == nil {
		return
	}
	if e.heapInvDone == nil {
		e.heapInvDone = map[string]bool{}
	}
	// (assumed again whenever the component read from has changed since: the invariant holds in every state)
	key := a.Ref + "|" + a.Comp + "|" + e.hget(h, a.Comp)
	if e.heapInvDone[key] {
		return
	}
	e.heapInvDone[key] = true
	for _, c := range fs.Clauses {
		sf := e.eng.ld.specFunc(fs, c)
		t := e.evalSpec(sf, []Val{{T: a.Ref, Typ: sf.Params[0].Type()}}, h, nil)
		e.s.assert(implies(not(eq(a.Ref, "null")), t))
		e.eng.assumes["invariant of every "+parts[1]+" object assumed: "+c.Text] = true
	}
}

// convSite: obligations declared with "convinv" for conversions of non-constant values to a named type.
func (e *Exec) convSite(f *frame, x ssa.Value, from ssa.Value, v Val, h *Heap, g string) {
	if e.specDepth > 0 || e.quiet > 0 {
		return
	}
	for _, ci := range e.eng.convInvs(f.fn, x.Type()) {
		if _, isConst := from.(*ssa.Const); isConst || !e.wantClause(ci.c) {
			continue
		}
		v.Typ = from.Type()
		e.callOrd["convinv:"+ci.c.Label]++
		t := e.evalSpec(e.eng.ld.specFunc(ci.fs, ci.c), []Val{v}, h, nil)
		e.addObligation(f, "conversion", ci.c, fmt.Sprintf("conv.%s@%s%d", labelOr(ci.c, "inv"), f.path, e.callOrd["convinv:"+ci.c.Label]), g, t, x.Pos())
	}
}
