package main

import (
	"encoding/hex"
	"encoding/json"
	"fmt"
	"os"
	"os/exec"
	"path/filepath"
	"strings"
)

// goReplay runs one injected test of /repo with the given inputs.
func goReplay(r *Report, pkgRel, testFile, testName string, inputs map[string]string) (string, bool) {
	tmp, err := os.MkdirTemp("", "verif-replay-")
	if err != nil {
		return err.Error(), false
	}
	defer os.RemoveAll(tmp)
	ov := map[string]map[string]string{"Replace": {
		filepath.Join(r.Repo, pkgRel, "zz_verif_replay_test.go"): filepath.Join(r.Verif, "replay", testFile),
	}}
	b, _ := json.Marshal(ov)
	ovf := filepath.Join(tmp, "overlay.json")
	os.WriteFile(ovf, b, 0644)
	in, _ := json.Marshal(inputs)
	cmd := exec.Command("go", "test", "-overlay", ovf, "-vet=off", "-count=1", "-timeout", "120s", "-v", "-run", "^"+testName+"$", "./"+pkgRel)
	cmd.Dir = r.Repo
	env := []string{}
	for _, kv := range os.Environ() {
		if strings.HasPrefix(kv, "GOSUMDB=") || strings.HasPrefix(kv, "GOTOOLCHAIN=") || strings.HasPrefix(kv, "PATH=") || strings.HasPrefix(kv, "GOFLAGS=") {
			continue
		}
		env = append(env, kv)
	}
	path := os.Getenv("PATH")
	// the repository's own toolchain (default go), not the engine's
	var parts []string
	for _, p := range strings.Split(path, ":") {
		if !strings.Contains(p, "go1.26") {
			parts = append(parts, p)
		}
	}
	env = append(env, "PATH="+strings.Join(parts, ":"), "GOFLAGS=-mod=mod", "GOPROXY=off", "VERIF_REPLAY_INPUTS="+string(in))
	cmd.Env = env
	out, _ := cmd.CombinedOutput()
	s := string(out)
	return s, strings.Contains(s, "REPLAY-CONFIRMED")
}

func hexOfSMTString(lit string) (string, bool) {
	b, exact := smtStringToBytes(lit)
	return hex.EncodeToString(b), exact
}

func replaySummary(out string) string {
	var keep []string
	for _, l := range strings.Split(out, "\n") {
		if strings.Contains(l, "REPLAY-") || strings.Contains(l, " -> ") {
			keep = append(keep, strings.TrimSpace(l))
		}
	}
	if len(keep) == 0 {
		return firstLines(out, 6)
	}
	return strings.Join(keep, " | ")
}

func init() {
	replayDrivers = append(replayDrivers, replayDriver{
		match: func(n string) bool { return strings.HasPrefix(n, "keymasterd.getLoginDestination#") },
		run: func(r *Report, o *Obligation, sr *SolveResult) ReplayResult {
			m := parseModel(sr.Model)
			v, ok := o.callResult(m, "(net/url.Values).Get", 1, 0)
			if !ok {
				v, ok = o.callResult(m, "(*net/http.Request).FormValue", 1, 0)
			}
			if !ok {
				return ReplayResult{Summary: "model has no value for the submitted destination"}
			}
			hx, exact := hexOfSMTString(v)
			out, conf := goReplay(r, "cmd/keymasterd", "keymasterd_replay_test.go", "TestVerifReplayGetLoginDestination", map[string]string{"login_destination": hx})
			sum := replaySummary(out)
			if !exact {
				sum += " (model characters above 255 reduced to bytes)"
			}
			return ReplayResult{Confirmed: conf, Summary: sum, Inputs: map[string]string{"login_destination": v}, Output: truncate(out, 4000), Driver: "TestVerifReplayGetLoginDestination"}
		},
	})
	_ = fmt.Sprint
}
