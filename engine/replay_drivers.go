package main

import (
	"sort"
	"math/big"
	"regexp"
	"encoding/hex"
	"encoding/json"
	"fmt"
	"os"
	"os/exec"
	"path/filepath"
	"strings"
)

// goReplay runs one injected test of /repo with the given inputs.
// goReplayRace runs a replay test under the race detector; the confirmation is the detector's own report
// naming fn.
func goReplayRace(r *Report, pkgRel, testFile, testName, fn string) (string, bool) {
	raceReplay = true
	defer func() { raceReplay = false }()
	out, _ := goReplay(r, pkgRel, testFile, testName, map[string]string{})
	conf := false
	if i := strings.Index(out, "WARNING: DATA RACE"); i >= 0 {
		rest := out[i:]
		if j := strings.Index(rest, "=================="); j > 0 {
			rest = rest[:j]
		}
		conf = strings.Contains(rest, fn)
		if conf {
			out = "REPLAY-CONFIRMED: the race detector reports a data race in " + fn + "\n" + out[i:]
		}
	}
	if !conf {
		out = "REPLAY-NOT-REPRODUCED (no race report naming " + fn + ")\n" + out
	}
	return out, conf
}

var raceReplay bool

// lastGoReplay remembers the most recent test invocation so that it can be stored in the replay file and
// re-run later with "./check --replay <file>".
var lastGoReplay *ReplayInvocation

type ReplayInvocation struct {
	Pkg    string            `json:"pkg"`
	File   string            `json:"test_file"`
	Test   string            `json:"test"`
	Inputs map[string]string `json:"inputs"`
	Race   bool              `json:"race,omitempty"`
}

func goReplay(r *Report, pkgRel, testFile, testName string, inputs map[string]string) (string, bool) {
	lastGoReplay = &ReplayInvocation{Pkg: pkgRel, File: testFile, Test: testName, Inputs: inputs, Race: raceReplay}
	tmp, err := os.MkdirTemp("", "verif-replay-")
	if err != nil {
		return err.Error(), false
	}
	defer os.RemoveAll(tmp)
	ov := map[string]map[string]string{"Replace": {
		filepath.Join(r.Repo, pkgRel, "zz_verif_replay_test.go"): replayFilePath(r, testFile),
	}}
	b, _ := json.Marshal(ov)
	ovf := filepath.Join(tmp, "overlay.json")
	os.WriteFile(ovf, b, 0644)
	in, _ := json.Marshal(inputs)
	runPat := "^" + testName + "$"
	if strings.HasSuffix(testName, "*") {
		runPat = "^" + strings.TrimSuffix(testName, "*")
	}
	argv := []string{"test", "-overlay", ovf, "-vet=off", "-count=1", "-timeout", "180s", "-v", "-run", runPat, "./" + pkgRel}
	if raceReplay {
		argv = append([]string{"test", "-race"}, argv[1:]...)
	}
	cmd := exec.Command("go", argv...)
	cmd.Dir = r.Repo
	env := []string{}
	for _, kv := range os.Environ() {
		if strings.HasPrefix(kv, "GOSUMDB=") || strings.HasPrefix(kv, "GOTOOLCHAIN=") || strings.HasPrefix(kv, "PATH=") || strings.HasPrefix(kv, "GOFLAGS=") {
			continue
		}
		env = append(env, kv)
	}
	path := os.Getenv("PATH")
	// the repository's own toolchain (default go), not the engine's
	var parts []string
	for _, p := range strings.Split(path, ":") {
		if !strings.Contains(p, "go1.26") {
			parts = append(parts, p)
		}
	}
	env = append(env, "PATH="+strings.Join(parts, ":"), "GOFLAGS=-mod=mod", "GOPROXY=off", "VERIF_REPLAY_INPUTS="+string(in))
	cmd.Env = env
	out, _ := cmd.CombinedOutput()
	s := string(out)
	return s, strings.Contains(s, "REPLAY-CONFIRMED")
}

func hexOfSMTString(lit string) (string, bool) {
	b, exact := smtStringToBytes(lit)
	return hex.EncodeToString(b), exact
}

func replaySummary(out string) string {
	var keep []string
	for _, l := range strings.Split(out, "\n") {
		if strings.Contains(l, "REPLAY-") || strings.Contains(l, " -> ") {
			keep = append(keep, strings.TrimSpace(l))
		}
	}
	if len(keep) == 0 {
		return firstLines(out, 6)
	}
	return strings.Join(keep, " | ")
}

func init() {
	replayDrivers = append(replayDrivers, replayDriver{
		match: func(n string) bool { return strings.HasPrefix(n, "keymasterd.getLoginDestination#") },
		run: func(r *Report, o *Obligation, sr *SolveResult) ReplayResult {
			m := parseModel(sr.Model)
			v, ok := o.callResult(m, "(net/url.Values).Get", 1, 0)
			if !ok {
				v, ok = o.callResult(m, "(*net/http.Request).FormValue", 1, 0)
			}
			if !ok {
				return ReplayResult{Summary: "model has no value for the submitted destination"}
			}
			hx, exact := hexOfSMTString(v)
			out, conf := goReplay(r, "cmd/keymasterd", "keymasterd_replay_test.go", "TestVerifReplayGetLoginDestination", map[string]string{"login_destination": hx})
			sum := replaySummary(out)
			if !exact {
				sum += " (model characters above 255 reduced to bytes)"
			}
			return ReplayResult{Confirmed: conf, Summary: sum, Inputs: map[string]string{"login_destination": v}, Output: truncate(out, 4000), Driver: "TestVerifReplayGetLoginDestination"}
		},
	})
	replayDrivers = append(replayDrivers, replayDriver{
		match: func(n string) bool { return strings.HasPrefix(n, "keymasterd.isSafeLoginDestination#") },
		run: func(r *Report, o *Obligation, sr *SolveResult) ReplayResult {
			m := parseModel(sr.Model)
			v, ok := m["p_dest"]
			if !ok {
				return ReplayResult{Summary: "model has no value for dest"}
			}
			hx, exact := hexOfSMTString(v)
			out, conf := goReplay(r, "cmd/keymasterd", "keymasterd_replay_test.go", "TestVerifReplayGetLoginDestination", map[string]string{"login_destination": hx})
			sum := replaySummary(out)
			if !exact {
				sum += " (model characters above 255 reduced to bytes)"
			}
			if !conf {
				// the contract's emitSafe is a sufficient condition (no segment starting with a backslash);
				// the model names the offending segment but the segments before it need not cancel out under
				// path.Clean. Generalise the model along path.Clean: keep the suffix from the offending
				// segment, replace what precedes it with a self-cancelling "/x/..".
				if b, err := hex.DecodeString(hx); err == nil {
					if k := strings.Index(string(b), "/\\"); k > 0 {
						alt := "/x/.." + string(b)[k:]
						out2, conf2 := goReplay(r, "cmd/keymasterd", "keymasterd_replay_test.go", "TestVerifReplayGetLoginDestination", map[string]string{"login_destination": hex.EncodeToString([]byte(alt))})
						if conf2 {
							return ReplayResult{Confirmed: true, Summary: replaySummary(out2) + " (solver model " + fmt.Sprintf("%q", string(b)) + " generalised along path.Clean: prefix before the offending segment replaced by /x/..)", Inputs: map[string]string{"login_destination": alt, "solver_model": v}, Output: truncate(out2, 4000), Driver: "TestVerifReplayGetLoginDestination"}
						}
					}
				}
			}
			return ReplayResult{Confirmed: conf, Summary: sum, Inputs: map[string]string{"login_destination": v}, Output: truncate(out, 4000), Driver: "TestVerifReplayGetLoginDestination"}
		},
	})
	_ = fmt.Sprint
	replayDrivers = append(replayDrivers, replayDriver{
		match: func(n string) bool { return strings.HasPrefix(n, "certgen.decodeIPV4AddressChoice#") },
		run: func(r *Report, o *Obligation, sr *SolveResult) ReplayResult {
			m := parseModel(sr.Model)
			v := m["p_encodedBlock"]
			// (mk_S_BitString_n (mk_slice base off len cap) bitlength)
			nums := intRe.FindAllString(strings.ReplaceAll(v, "(- ", "(-"), -1)
			if len(nums) < 5 {
				return ReplayResult{Summary: "cannot read the BitString from the model: " + v}
			}
			in := map[string]string{"bitlength": strings.Trim(nums[len(nums)-1], "()"), "nbytes": strings.Trim(nums[len(nums)-3], "()")}
			out, conf := goReplay(r, "lib/certgen", "certgen_replay_test.go", "TestVerifReplayDecodeIPV4", in)
			return ReplayResult{Confirmed: conf, Summary: replaySummary(out), Inputs: in, Output: truncate(out, 4000), Driver: "TestVerifReplayDecodeIPV4"}
		},
	})
}

func init() {
	replayDrivers = append(replayDrivers, replayDriver{
		match: func(n string) bool { return strings.HasPrefix(n, "certgen.GenSSHCertFileString#C03") },
		run: func(r *Report, o *Obligation, sr *SolveResult) ReplayResult {
			m := parseModel(sr.Model)
			bv, ok := smtBVToBig(m["p_duration"])
			if !ok {
				return ReplayResult{Summary: "model has no value for duration"}
			}
			if bv.Bit(63) == 1 {
				bv.Sub(bv, new(big.Int).Lsh(big.NewInt(1), 64))
			}
			in := map[string]string{"duration_ns": bv.String()}
			out, conf := goReplay(r, "lib/certgen", "certgen_replay_test.go", "TestVerifReplayGenSSHCertWindow", in)
			return ReplayResult{Confirmed: conf, Summary: replaySummary(out), Inputs: in, Output: truncate(out, 4000), Driver: "TestVerifReplayGenSSHCertWindow"}
		},
	})
}

var bvLitRe = regexp.MustCompile(`#b[01]+|#x[0-9a-fA-F]+`)

// modelFunLits returns the bit-vector literals occurring in the model's definition of a symbol.
func modelFunLits(model, name string) []*big.Int {
	i := strings.Index(model, "(define-fun "+name+" ")
	if i < 0 {
		return nil
	}
	rest := model[i:]
	if j := strings.Index(rest[1:], "(define-fun "); j > 0 {
		rest = rest[:j+1]
	}
	var out []*big.Int
	for _, l := range bvLitRe.FindAllString(rest, -1) {
		if v, ok := smtBVToBig(l); ok {
			out = append(out, v)
		}
	}
	return out
}

func init() {
	replayDrivers = append(replayDrivers, replayDriver{
		match: func(n string) bool { return strings.HasPrefix(n, "certgen.ValidatePublicKeyStrength#C10.strong") },
		run: func(r *Report, o *Obligation, sr *SolveResult) ReplayResult {
			bits := int64(2047)
			for _, v := range modelFunLits(sr.Model, "ghost_bitlen") {
				if v.IsInt64() && v.Int64() > 0 && v.Int64() < 1<<20 {
					bits = v.Int64()
				}
			}
			e := int64(65537)
			for _, v := range modelFunLits(sr.Model, "H0_F_crypto_rsa_PublicKey_E") {
				if v.IsInt64() && v.Int64() > e {
					e = v.Int64()
				}
			}
			if !strings.Contains(sr.Model, "PublicKey_E") && !strings.Contains(sr.Model, "ghost_bitlen") {
				return ReplayResult{Summary: "the model is not about an RSA key; see solver_output"}
			}
			in := map[string]string{"bitlen": fmt.Sprint(bits), "e": fmt.Sprint(e)}
			out, conf := goReplay(r, "lib/certgen", "certgen_replay_test.go", "TestVerifReplayKeyStrengthRSA", in)
			return ReplayResult{Confirmed: conf, Summary: replaySummary(out), Inputs: in, Output: truncate(out, 4000), Driver: "TestVerifReplayKeyStrengthRSA"}
		},
	})
}

var strLitRe = regexp.MustCompile(`"(?:[^"]|"")*"`)

func modelFunStrings(model, name string) []string {
	i := strings.Index(model, "(define-fun "+name+" ")
	if i < 0 {
		return nil
	}
	rest := model[i:]
	if j := strings.Index(rest[1:], "(define-fun "); j > 0 {
		rest = rest[:j+1]
	}
	var out []string
	for _, l := range strLitRe.FindAllString(rest, -1) {
		if b, _ := smtStringToBytes(l); len(b) > 0 && len(b) < 200 {
			out = append(out, hex.EncodeToString(b))
		}
	}
	return out
}

func init() {
	replayDrivers = append(replayDrivers, replayDriver{
		match: func(n string) bool {
			return strings.Contains(n, "CanRedirectToURL#C13.host") || strings.Contains(n, "CorsOriginAllowed#C13.cors-host")
		},
		run: func(r *Report, o *Obligation, sr *SolveResult) ReplayResult {
			obs := parseObserved(sr.Model, o.Observe)
			var hosts, domains []string
			for k, v := range obs {
				if hx, _ := hexOfSMTString(v); strings.HasPrefix(v, "\"") {
					if strings.HasPrefix(k, "host") {
						hosts = append(hosts, hx)
					} else if strings.HasPrefix(k, "domain") {
						domains = append(domains, hx)
					}
				}
			}
			if len(hosts) == 0 || len(domains) == 0 {
				return ReplayResult{Summary: fmt.Sprintf("model gives no host/domain strings (observed: %v)", obs)}
			}
			hj, _ := json.Marshal(hosts)
			dj, _ := json.Marshal(domains)
			in := map[string]string{"hosts": string(hj), "domains": string(dj)}
			out, conf := goReplay(r, "cmd/keymasterd", "keymasterd_replay_test.go", "TestVerifReplayCanRedirectHost", in)
			return ReplayResult{Confirmed: conf, Summary: replaySummary(out), Inputs: in, Output: truncate(out, 4000), Driver: "TestVerifReplayCanRedirectHost"}
		},
	})
}

func init() {
	replayDrivers = append(replayDrivers, replayDriver{
		match: func(n string) bool {
			return strings.Contains(n, "getStorageDataFromStorageStringDataJWT#C04.storage-exp") || strings.Contains(n, "GetSigned#C07.cache-record-valid")
		},
		run: func(r *Report, o *Obligation, sr *SolveResult) ReplayResult {
			obs := parseObserved(sr.Model, o.Observe)
			age := int64(10)
			if e, ok := smtBVToBig(obs["exp"]); ok {
				if n, ok2 := smtBVToBig(obs["now"]); ok2 {
					d := new(big.Int).Sub(n, e)
					if d.IsInt64() && d.Int64() > 0 && d.Int64() < 1<<40 {
						age = d.Int64()
					}
				}
			}
			in := map[string]string{"seconds_past_expiry": fmt.Sprint(age)}
			out, conf := goReplay(r, "cmd/keymasterd", "keymasterd_replay_test.go", "TestVerifReplayExpiredStorageRecord", in)
			return ReplayResult{Confirmed: conf, Summary: replaySummary(out), Inputs: in, Output: truncate(out, 4000), Driver: "TestVerifReplayExpiredStorageRecord"}
		},
	})
}

func init() {
	replayDrivers = append(replayDrivers, replayDriver{
		match: func(n string) bool { return strings.Contains(n, "checkAuth#C06.kind") },
		run: func(r *Report, o *Obligation, sr *SolveResult) ReplayResult {
			obs := parseObserved(sr.Model, o.Observe)
			req := int64(0)
			if v, ok := smtBVToBig(obs["param:requiredAuthType"]); ok && v.IsInt64() {
				req = v.Int64() & 0xFFFF
			}
			in := map[string]string{"required": fmt.Sprint(req)}
			out, conf := goReplay(r, "cmd/keymasterd", "keymasterd_replay_test.go", "TestVerifReplayCheckAuthKind", in)
			return ReplayResult{Confirmed: conf, Summary: replaySummary(out), Inputs: in, Output: truncate(out, 4000), Driver: "TestVerifReplayCheckAuthKind"}
		},
	})
}

func init() {
	replayDrivers = append(replayDrivers, replayDriver{
		match: func(n string) bool { return strings.Contains(n, "getUsernameIfIPRestricted#C06.ip-cert") },
		run: func(r *Report, o *Obligation, sr *SolveResult) ReplayResult {
			out, conf := goReplay(r, "cmd/keymasterd", "keymasterd_replay_test.go", "TestVerifReplayDeniedIPCert", map[string]string{})
			return ReplayResult{Confirmed: conf, Summary: replaySummary(out), Output: truncate(out, 4000), Driver: "TestVerifReplayDeniedIPCert (scenario of the model: certificate key equal to a deny-list entry)"}
		},
	})
}

func init() {
	replayDrivers = append(replayDrivers, replayDriver{
		match: func(n string) bool { return strings.Contains(n, "VIPPollCheckHandler#updateAuthCookieAuthlevel.C05.own-factor") },
		run: func(r *Report, o *Obligation, sr *SolveResult) ReplayResult {
			out, conf := goReplay(r, "cmd/keymasterd", "keymasterd_replay_test.go", "TestVerifReplayVIPPollOtherUser", map[string]string{})
			return ReplayResult{Confirmed: conf, Summary: replaySummary(out), Output: truncate(out, 4000), Driver: "TestVerifReplayVIPPollOtherUser (scenario of the model: stored transaction user != session user)"}
		},
	})
}

func init() {
	replayDrivers = append(replayDrivers, replayDriver{
		match: func(n string) bool { return strings.Contains(n, "updateAuthCookieAuthlevel#C05.own-session") },
		run: func(r *Report, o *Obligation, sr *SolveResult) ReplayResult {
			out, conf := goReplay(r, "cmd/keymasterd", "keymasterd_replay_test.go", "TestVerifReplayUpgradeOtherUsersCookie", map[string]string{})
			return ReplayResult{Confirmed: conf, Summary: replaySummary(out), Output: truncate(out, 4000), Driver: "TestVerifReplayUpgradeOtherUsersCookie (scenario of the model: cookie subject != user established by checkAuth)"}
		},
	})
}

func init() {
	replayDrivers = append(replayDrivers, replayDriver{
		match: func(n string) bool { return strings.Contains(n, "u2fSignResponse#updateAuthCookieAuthlevel.C05.u2f-challenge-consumed") },
		run: func(r *Report, o *Obligation, sr *SolveResult) ReplayResult {
			out, conf := goReplay(r, "cmd/keymasterd", "keymasterd_u2f_replay_test.go", "TestVerifReplayU2FChallengeReuse", map[string]string{})
			return ReplayResult{Confirmed: conf, Summary: replaySummary(out), Output: truncate(out, 4000), Driver: "TestVerifReplayU2FChallengeReuse (scenario of the model: token registered through webauthn, assertion verified in the transformed-registration branch)"}
		},
	})
}

func init() {
	replayDrivers = append(replayDrivers, replayDriver{
		match: func(n string) bool { return strings.Contains(n, "validateUserTOTP#C14.totp-lockout-escalates") },
		run: func(r *Report, o *Obligation, sr *SolveResult) ReplayResult {
			out, conf := goReplay(r, "cmd/keymasterd", "keymasterd_replay_test.go", "TestVerifReplayTOTPLockoutEscalation", map[string]string{})
			return ReplayResult{Confirmed: conf, Summary: replaySummary(out), Output: truncate(out, 4000), Driver: "TestVerifReplayTOTPLockoutEscalation (scenario of the model: failCount reaches a multiple of five)"}
		},
	})
}

var intRe = regexp.MustCompile(`\(?-?[0-9]+\)?`)

func init() {
	replayDrivers = append(replayDrivers, replayDriver{
		match: func(n string) bool { return strings.Contains(n, "readyzHandler#") },
		run: func(r *Report, o *Obligation, sr *SolveResult) ReplayResult {
			out, conf := goReplay(r, "cmd/keymasterd", "keymasterd_replay_test.go", "TestVerifReplayReadyz", map[string]string{})
			return ReplayResult{Confirmed: conf, Summary: replaySummary(out), Output: truncate(out, 4000), Driver: "TestVerifReplayReadyz (the model fixes which signer fields are nil; all four combinations are replayed)"}
		},
	})
}

func init() {
	replayDrivers = append(replayDrivers, replayDriver{
		match: func(n string) bool { return strings.Contains(n, "signerPublicKeyToKeymasterKeys#") },
		run: func(r *Report, o *Obligation, sr *SolveResult) ReplayResult {
			out, conf := goReplay(r, "cmd/keymasterd", "keymasterd_replay_test.go", "TestVerifReplayPublishedKeys", map[string]string{})
			return ReplayResult{Confirmed: conf, Summary: replaySummary(out), Output: truncate(out, 4000), Driver: "TestVerifReplayPublishedKeys (scenarios of the model: which signing keys are already in the published list)"}
		},
	})
}

func init() {
	replayDrivers = append(replayDrivers, replayDriver{
		match: func(n string) bool { return strings.Contains(n, "u2fSignResponse#C16.state-mutex.RuntimeState.localAuthData") },
		run: func(r *Report, o *Obligation, sr *SolveResult) ReplayResult {
			out, conf := goReplayRace(r, "cmd/keymasterd", "keymasterd_u2f_replay_test.go", "TestVerifReplayU2FChallengeMapRace", "u2fSignResponse")
			return ReplayResult{Confirmed: conf, Summary: firstLines(out, 1), Output: truncate(out, 6000), Driver: "TestVerifReplayU2FChallengeMapRace under go test -race (schedule of the model: another request holds state.Mutex and uses the map while the sign response is served)"}
		},
	})
}

func init() {
	replayDrivers = append(replayDrivers, replayDriver{
		match: func(n string) bool {
			return strings.Contains(n, "writeHTMLLoginPage#conv.C18") || strings.Contains(n, "writeHTML2FAAuthPage#conv.C18")
		},
		run: func(r *Report, o *Obligation, sr *SolveResult) ReplayResult {
			m := parseModel(sr.Model)
			// the destination itself, or (when the model only fixes what url.String() returned) that string
			v, ok := m["p_loginDestination"]
			var alt string
			for k, x := range m {
				if strings.HasPrefix(k, "r_String_") {
					alt = x
				}
			}
			cands := []string{}
			if alt != "" {
				cands = append(cands, alt)
			}
			if ok {
				cands = append(cands, v)
			}
			var last ReplayResult
			for _, c := range cands {
				hx, _ := hexOfSMTString(c)
				if b, err := hex.DecodeString(hx); err == nil && !strings.HasPrefix(string(b), "/") {
					hx = hex.EncodeToString(append([]byte("/x?"), b...)) // a path-absolute destination carrying the model's text in its query
				}
				out, conf := goReplay(r, "cmd/keymasterd", "keymasterd_replay_test.go", "TestVerifReplayLoginPageMarkup", map[string]string{"login_destination": hx})
				last = ReplayResult{Confirmed: conf, Summary: replaySummary(out), Inputs: map[string]string{"login_destination": c}, Output: truncate(out, 4000), Driver: "TestVerifReplayLoginPageMarkup"}
				if conf {
					return last
				}
			}
			if len(cands) == 0 {
				return ReplayResult{Summary: "model has no value for the destination"}
			}
			return last
		},
	})
}

func init() {
	replayDrivers = append(replayDrivers, replayDriver{
		match: func(n string) bool { return strings.Contains(n, "generateRoleCert#C20.") },
		run: func(r *Report, o *Obligation, sr *SolveResult) ReplayResult {
			out, conf := goReplay(r, "cmd/keymasterd", "keymasterd_audit_replay_test.go", "TestVerifReplayCloudRoleCertPublished", map[string]string{})
			return ReplayResult{Confirmed: conf, Summary: replaySummary(out), Output: truncate(out, 4000), Driver: "TestVerifReplayCloudRoleCertPublished (path of the model: signing succeeds; a live subscriber is attached)"}
		},
	})
}

func init() {
	replayDrivers = append(replayDrivers, replayDriver{
		match: func(n string) bool { return strings.Contains(n, "getValidSSHPublicKey#C19.") },
		run: func(r *Report, o *Obligation, sr *SolveResult) ReplayResult {
			m := parseModel(sr.Model)
			v := m["p_userPubKey"]
			hx, _ := hexOfSMTString(v)
			b, _ := hex.DecodeString(hx)
			kt := strings.SplitN(string(b), " ", 2)[0]
			in := map[string]string{"key_type": kt}
			out, conf := goReplay(r, "cmd/keymasterd", "keymasterd_replay_test.go", "TestVerifReplayOfferedKeyType", in)
			return ReplayResult{Confirmed: conf, Summary: replaySummary(out), Inputs: map[string]string{"key_type": kt, "model_line": v}, Output: truncate(out, 4000), Driver: "TestVerifReplayOfferedKeyType (a real key of the type named by the model's key line)"}
		},
	})
}

func init() {
	replayDrivers = append(replayDrivers, replayDriver{
		match: func(n string) bool { return strings.Contains(n, "copyDBIntoSQLite#") && strings.Contains(n, "C15.") },
		run: func(r *Report, o *Obligation, sr *SolveResult) ReplayResult {
			if strings.Contains(o.Name, "iteration-errors") || strings.Contains(o.Name, "no-commit-after") {
				out, conf := goReplay(r, "cmd/keymasterd", "keymasterd_storage_replay_test.go", "TestVerifReplaySyncInterruptedWhileReading", map[string]string{})
				return ReplayResult{Confirmed: conf, Summary: replaySummary(out), Output: truncate(out, 4000), Driver: "TestVerifReplaySyncInterruptedWhileReading (history of the model: the row iteration over the source stops on an error; a fault-injecting database/sql driver plays the primary)"}
			}
			out, conf := goReplay(r, "cmd/keymasterd", "keymasterd_storage_replay_test.go", "TestVerifReplayCacheMirrorsDeletions", map[string]string{})
			return ReplayResult{Confirmed: conf, Summary: replaySummary(out), Output: truncate(out, 4000), Driver: "TestVerifReplayCacheMirrorsDeletions (history of the model: a user and a signed record are deleted in the primary between two completed synchronisations)"}
		},
	})
}

func init() {
	replayDrivers = append(replayDrivers, replayDriver{
		match: func(n string) bool {
			return strings.Contains(n, "certGenHandler#loop1.C01.") || strings.Contains(n, "C01.level-ssh") || strings.Contains(n, "C01.level-x509")
		},
		run: func(r *Report, o *Obligation, sr *SolveResult) ReplayResult {
			out, conf := goReplay(r, "cmd/keymasterd", "keymasterd_replay_test.go", "TestVerifReplayCertLevel", map[string]string{})
			return ReplayResult{Confirmed: conf, Summary: replaySummary(out), Output: truncate(out, 4000), Driver: "TestVerifReplayCertLevel (the (listed method, session level) space of the model: 7 methods x 22 levels on the real handler)"}
		},
	})
}

func init() {
	replayDrivers = append(replayDrivers, replayDriver{
		match: func(n string) bool { return strings.Contains(n, "C16.u2f-challenge-taken-before-verification") },
		run: func(r *Report, o *Obligation, sr *SolveResult) ReplayResult {
			out, conf := goReplay(r, "cmd/keymasterd", "keymasterd_u2f_replay_test.go", "TestVerifReplayU2FSimultaneousPresentation", map[string]string{})
			return ReplayResult{Confirmed: conf, Summary: replaySummary(out), Output: truncate(out, 4000), Driver: "TestVerifReplayU2FSimultaneousPresentation (schedule of the model: a second presentation reads the challenge before the first one has removed it; 8 simultaneous presentations, repeated rounds)"}
		},
	})
}

func init() {
	replayDrivers = append(replayDrivers, replayDriver{
		match: func(n string) bool {
			return (strings.HasPrefix(n, "certgen.VerifyIPRestrictedX509CertIP#nopanic") || strings.HasPrefix(n, "certgen.ExtractIPNetsFromIPRestrictedX509#nopanic"))
		},
		run: func(r *Report, o *Obligation, sr *SolveResult) ReplayResult {
			out, conf := goReplay(r, "lib/certgen", "certgen_replay_test.go", "TestVerifReplayAddressExtensionNoPanic", map[string]string{})
			return ReplayResult{Confirmed: conf, Summary: replaySummary(out), Output: truncate(out, 4000), Driver: "TestVerifReplayAddressExtensionNoPanic (shapes of the model: family identifiers of 0..3 octets, blocks whose bit length disagrees with their octets)"}
		},
	})
}

func init() {
	replayDrivers = append(replayDrivers, replayDriver{
		match: func(n string) bool {
			return strings.Contains(n, "-committed") && (strings.Contains(n, "DeleteSigned#") || strings.Contains(n, "UpsertSigned#") || strings.Contains(n, "SaveUserProfile#") || strings.Contains(n, "DeleteUserProfile#"))
		},
		run: func(r *Report, o *Obligation, sr *SolveResult) ReplayResult {
			out, conf := goReplay(r, "cmd/keymasterd", "keymasterd_storage_replay_test.go", "TestVerifReplayWritesAreCommitted", map[string]string{})
			return ReplayResult{Confirmed: conf, Summary: replaySummary(out), Output: truncate(out, 4000), Driver: "TestVerifReplayWritesAreCommitted (history of the model: a writer returns nil without committing; the next read shows the old content)"}
		},
	})
}

func init() {
	replayDrivers = append(replayDrivers, replayDriver{
		match: func(n string) bool { return strings.Contains(n, "challenge-unexpired") },
		run: func(r *Report, o *Obligation, sr *SolveResult) ReplayResult {
			out, conf := goReplay(r, "cmd/keymasterd", "keymasterd_u2f_replay_test.go", "TestVerifReplayU2FChallengeExpired", map[string]string{})
			return ReplayResult{Confirmed: conf, Summary: replaySummary(out), Output: truncate(out, 4000), Driver: "TestVerifReplayU2FChallengeExpired (state of the model: the stored challenge's ExpiresAt lies in the past and the janitor has not removed it; a software token answers it on the sign-response path)"}
		},
	})
}

func init() {
	replayDrivers = append(replayDrivers, replayDriver{
		match: func(n string) bool {
			return strings.Contains(n, "bad-key-is-the-clients-error") || strings.Contains(n, "client-error-status")
		},
		run: func(r *Report, o *Obligation, sr *SolveResult) ReplayResult {
			out, conf := goReplay(r, "cmd/keymasterd", "keymasterd_autokey_replay_test.go", "TestVerifReplayAutomationBadKeyStatus", map[string]string{})
			return ReplayResult{Confirmed: conf, Summary: replaySummary(out), Output: truncate(out, 4000), Driver: "TestVerifReplayAutomationBadKeyStatus (inputs of the model's class: a public key that does not parse, and one that is too weak, on both automation paths)"}
		},
	})
}

func init() {
	replayDrivers = append(replayDrivers, replayDriver{
		match: func(n string) bool { return strings.Contains(n, "#chansend.C15.primary-reports-only") },
		run: func(r *Report, o *Obligation, sr *SolveResult) ReplayResult {
			out, conf := goReplay(r, "cmd/keymasterd", "keymasterd_storage_replay_test.go", "TestVerifReplayUnreachablePrimaryFallsBackToCache", map[string]string{})
			return ReplayResult{Confirmed: conf, Summary: replaySummary(out), Output: truncate(out, 4000), Driver: "TestVerifReplayUnreachablePrimaryFallsBackToCache (history of the model: the primary fails before the query - its handle is closed - with the profile and the signed record mirrored in the cache)"}
		},
	})
}

func init() {
	replayDrivers = append([]replayDriver{{
		match: func(n string) bool { return strings.Contains(n, "getUsernameIfKeymasterSigned#C06.km-cert") },
		run: func(r *Report, o *Obligation, sr *SolveResult) ReplayResult {
			out, conf := goReplay(r, "cmd/keymasterd", "keymasterd_rolecert_replay_test.go", "TestVerifReplayAutomationCertOutsideNetblock", map[string]string{})
			return ReplayResult{Confirmed: conf, Summary: replaySummary(out), Output: truncate(out, 4000), Driver: "TestVerifReplayAutomationCertOutsideNetblock (chain of the model: a leaf issued by the role-requesting CA, whose key is a published keymaster key; presented from outside the leaf's netblocks)"}
		},
	}}, replayDrivers...)
}

// replayFilePath: replay tests live in /verif/replay; demonstrations of the seeded corpus in /verif/seeded/<id>/.
func replayFilePath(r *Report, testFile string) string {
	if strings.HasPrefix(testFile, "seeded/") {
		return filepath.Join(r.Verif, testFile)
	}
	return filepath.Join(r.Verif, "replay", testFile)
}

var corpusPkgDir = map[string]string{
	"main": "cmd/keymasterd", "certgen": "lib/certgen", "eventnotifier": "keymasterd/eventnotifier", "eventrecorder": "eventmon/eventrecorder",
	"ldap": "lib/pwauth/ldap", "okta": "lib/authenticators/okta", "sshagent": "lib/client/sshagent", "util": "lib/client/util",
	"authutil": "lib/authutil", "vip": "lib/vip", "admincache": "keymasterd/admincache", "aws_identity_cert": "lib/server/aws_identity_cert",
}

var pkgLineRe = regexp.MustCompile(`(?m)^package (\w+)`)
var ordinalRe = regexp.MustCompile(`(@[A-Za-z0-9_$./]*\d+|\.preserved@b\d+|\.entry)$`)

// corpusReplay: each seeded change in /verif/seeded comes with a demonstration - a test of the real code that passes
// while the property holds and fails for the behaviour the change introduces - and meta.json records which
// obligation reported that change. When an obligation fails and no dedicated driver confirms a failing input, the
// demonstrations recorded against the same clause of the same function are run on the current tree: one that
// fails is a concrete failing history of the real code.
func corpusReplay(r *Report, o *Obligation) (ReplayResult, bool) {
	if o.Label == "" || os.Getenv("VERIF_NO_CORPUS_REPLAY") != "" {
		return ReplayResult{}, false
	}
	fn := o.Name
	if i := strings.Index(fn, "#"); i >= 0 {
		fn = fn[:i]
	}
	metas, _ := filepath.Glob(filepath.Join(r.Verif, "seeded", "*", "meta.json"))
	sort.Sort(sort.Reverse(sort.StringSlice(metas)))
	tried := 0
	var notes []string
	for _, mp := range metas {
		b, err := os.ReadFile(mp)
		if err != nil {
			continue
		}
		var m struct {
			Detections []struct {
				Obligations []string `json:"obligations"`
			} `json:"detections"`
		}
		if json.Unmarshal(b, &m) != nil {
			continue
		}
		hit := false
		for _, d := range m.Detections {
			for _, ob := range d.Obligations {
				if strings.HasPrefix(ob, fn+"#") && strings.Contains(ob, o.Label) {
					hit = true
				}
			}
		}
		if !hit {
			continue
		}
		dir := filepath.Dir(mp)
		id := filepath.Base(dir)
		demo := filepath.Join(dir, "demo_test.go")
		src, err := os.ReadFile(demo)
		if err != nil {
			continue
		}
		pm := pkgLineRe.FindSubmatch(src)
		if pm == nil || corpusPkgDir[string(pm[1])] == "" {
			continue
		}
		if tried >= 3 {
			break
		}
		tried++
		out, _ := goReplay(r, corpusPkgDir[string(pm[1])], "seeded/"+id+"/demo_test.go", "TestSeeded*", map[string]string{})
		if strings.Contains(out, "[build failed]") || strings.Contains(out, "[setup failed]") {
			notes = append(notes, id+": does not build on this tree")
			continue
		}
		if strings.Contains(out, "--- FAIL") {
			var keep []string
			for _, l := range strings.Split(out, "\n") {
				t := strings.TrimSpace(l)
				if strings.HasPrefix(t, "--- FAIL") || (strings.Contains(t, "_test.go:") && len(keep) < 6) {
					keep = append(keep, t)
				}
			}
			return ReplayResult{Confirmed: true, Summary: "REPLAY-CONFIRMED: the demonstration kept with seeded change " + id + " (recorded against this clause) fails on this tree: " + strings.Join(keep, " | "),
				Output: truncate(out, 6000), Driver: "corpus demonstration seeded/" + id + "/demo_test.go (a test of the real code that passes while the property holds)"}, true
		}
		notes = append(notes, id+": passes")
	}
	if tried == 0 {
		return ReplayResult{}, false
	}
	return ReplayResult{Summary: "no demonstration of the seeded corpus recorded against this clause fails on this tree (" + strings.Join(notes, "; ") + ")"}, false
}

func init() {
	replayDrivers = append(replayDrivers, replayDriver{
		match: func(n string) bool { return strings.Contains(n, "C16.profile-write-back-in-the-critical-section-of-its-load") },
		run: func(r *Report, o *Obligation, sr *SolveResult) ReplayResult {
			out, conf := goReplay(r, "cmd/keymasterd", "keymasterd_lostupdate_replay_test.go", "TestVerifReplayProfileLostUpdate", map[string]string{})
			return ReplayResult{Confirmed: conf, Summary: replaySummary(out), Output: truncate(out, 4000), Driver: "TestVerifReplayProfileLostUpdate (history: a profile writer is held after its load while a token is disabled and acknowledged, then released; the writer replayed is the TOTP log-in - for a new writer the mechanism is the same, its own interleaving is not constructed)"}
		},
	})
}
