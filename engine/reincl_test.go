package main

import (
	"math/rand"
	"regexp"
	"testing"
)

func TestRegexInclusionKnown(t *testing.T) {
	cases := []struct {
		a, b string
		inc  bool
	}{
		{`^(ssh-rsa|ecdsa-sha2-nistp256|ecdsa-sha2-nistp384|ssh-ed25519) [a-zA-Z0-9/+]+=?=?\n?$`, `^(ssh-rsa|ssh-dss|ecdsa-sha2-nistp256|ssh-ed25519) [a-zA-Z0-9/+]+=?=? ?.{0,512}\n?$`, false},
		{`^(ssh-rsa|ecdsa-sha2-nistp256|ecdsa-sha2-nistp384|ssh-ed25519) [a-zA-Z0-9/+]+=?=?\n?$`, `^(ssh-rsa|ssh-dss|ecdsa-sha2-nistp256|ecdsa-sha2-nistp384|ssh-ed25519) [a-zA-Z0-9/+]+=?=? ?.{0,512}\n?$`, true},
		{`^[a-z]*$`, `^[a-z0-9]*$`, true},
		{`^[a-z0-9]*$`, `^[a-z]*$`, false},
		{`^a{0,5}$`, `^a{0,4}$`, false},
		{`^a{0,4}$`, `^a{0,5}$`, true},
		{`^(ab)*$`, `^(a|b)*$`, true},
		{`^(a|b)*$`, `^(ab)*$`, false},
		{`^x.{0,3}$`, `^x.{0,3}\n?$`, true},
		{`^x.{0,3}\n?$`, `^x.{0,3}$`, false},
		{`^[^"<>]*$`, `^[^"]*$`, true},
		{`^[^"]*$`, `^[^"<>]*$`, false},
	}
	for _, c := range cases {
		inc, ok := goRegexIncluded(c.a, c.b)
		if !ok || inc != c.inc {
			t.Errorf("included(%q, %q) = %v (ok=%v), want %v", c.a, c.b, inc, ok, c.inc)
		}
	}
}

// differential test: whenever inclusion is claimed, no random string separates the two patterns
func TestRegexInclusionRandom(t *testing.T) {
	rnd := rand.New(rand.NewSource(1))
	atoms := []string{"a", "b", "[ab]", "[a-c]", ".", "a?", "b*", "(ab)+", "c{0,2}", "(a|bc)", "[^a]"}
	gen := func() string {
		n := 1 + rnd.Intn(4)
		s := "^"
		for i := 0; i < n; i++ {
			s += atoms[rnd.Intn(len(atoms))]
		}
		return s + "$"
	}
	alpha := []byte("abcd\n")
	claimed := 0
	for i := 0; i < 3000; i++ {
		a, b := gen(), gen()
		inc, ok := goRegexIncluded(a, b)
		if !ok {
			t.Fatalf("unsupported: %q %q", a, b)
		}
		ra, rb := regexp.MustCompile(a), regexp.MustCompile(b)
		witness := ""
		found := false
		for j := 0; j < 400 && !found; j++ {
			l := rnd.Intn(7)
			bs := make([]byte, l)
			for k := range bs {
				bs[k] = alpha[rnd.Intn(len(alpha))]
			}
			if ra.Match(bs) && !rb.Match(bs) {
				witness, found = string(bs), true
			}
		}
		if inc {
			claimed++
			if found {
				t.Fatalf("inclusion claimed for %q in %q but %q separates them", a, b, witness)
			}
		}
	}
	if claimed == 0 {
		t.Fatal("no inclusion was ever claimed: the test is vacuous")
	}
	t.Logf("%d inclusions claimed, none refuted by random strings", claimed)
}
