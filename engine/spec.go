package main

// Contract files: parsing of the //@ comment language and generation of the
// synthetic Go file that is overlaid (in memory only) on each package, so that
// every contract clause is type-checked by go/types and compiled by go/ssa
// exactly like the code it talks about.

import (
	"bytes"
	"fmt"
	"go/ast"
	"go/parser"
	"go/printer"
	"go/token"
	"os"
	"path/filepath"
	"regexp"
	"sort"
	"strconv"
	"strings"
)

type ClauseKind int

const (
	KRequires ClauseKind = iota
	KEnsures
	KInvariant
	KModifies
	KCover
	KAssertCall // call-site assertion on a callee: "atcall KEY requires EXPR"
	KReturns    // "returns EXPR": the single result is exactly EXPR (used as a definition at call sites)
	KGhostSet   // "ghostset VAR TYPE = EXPR [if COND]": ghost assignment performed when the function returns
	KAtCallSet  // "atcall KEY sets VAR TYPE (callee params and results) :: EXPR [if COND]": ghost assignment after a call made by this function
	KObserve    // "observe NAME EXPR": a value reported from the solver's model for replay drivers
	KValInv     // invariant of every value of a struct type stored in a map: "valinv T (v T) :: EXPR"
	KExhaustive // "loop K exhaustive": the loop is left only from its header
)

func (k ClauseKind) String() string {
	return [...]string{"requires", "ensures", "invariant", "modifies", "cover", "atcall", "returns", "ghostset", "atcallset", "observe", "valinv", "exhaustive"}[k]
}

type Clause struct {
	Kind   ClauseKind
	Text   string // source text of the expression
	Label  string // #label
	Tags   []string
	Loop   int      // for invariants: loop ordinal (1-based)
	Locals []string // for invariants: "name type" pairs
	GoName string   // generated spec function name
	File   string
	Line   int
	// AtCall: callee key this clause attaches to (KAssertCall)
	Callee    string
	Overrides string // label of the callee clause this call-site clause replaces
	Cond      string // ghostset: condition
	VarType   string // atcall sets: type of the ghost variable
	Assumed   bool   // "assume": a postcondition of a /repo function that is used at call sites but not verified
	Establishes bool // "atcall K establishes": the fact is assumed after its obligation
	SinceLock string // "ensures sincelock E" / "ensures sincefirstlock E": old() in E is the state right after the function last / first acquired a guarding mutex ("last", "first")
	// Free: skip assumption of this ensures at call sites unless tag selected (unused)
}

func (c *Clause) HasTag(t string) bool {
	for _, x := range c.Tags {
		if x == t {
			return true
		}
	}
	return false
}

type FuncSpec struct {
	Key      string // RelString-like key: "getLoginDestination", "(*RuntimeState).checkAuth", or full external key
	PkgPath  string // package whose synthetic file holds the spec functions
	Trusted  bool
	Iface    bool   // trusted contract for an interface method (invoke)
	Sig      string // for trusted: "(s string, prefix string) (ret0 bool)"
	Results  []string
	Clauses  []*Clause
	NoPanic  bool
	NoPanicT []string
	NoPanicKinds map[string]bool // nil: every kind
	Inline   string // "", "never", "always"
	IntMode  string // "" (64-bit vectors) or "math"
	Reveal   []string
	ModAll   bool   // modifies everything
	ModNone  bool
	ModComps []string // whole components ("T.f")
	Unroll   map[int]int
	Ghost    bool // spec-only function (pure/ghost), no body verification
	File     string
	Line     int
	// filled by generator
	ParamNames  []string
	ResultNames []string
	Verify      bool // has a body in /repo to verify
	Handler     string
	SpawnChecked bool // "spawned checked"
	ReadsLocked bool     // "readslocked": reads of written_under fields need the mutex in this function
	LockExempt  string   // "lockexempt #label": the lock rules do not apply in this function (start-up code), listed as an assumption
	Acquires    []string // trusted lock operations: parameter names whose mutex is acquired / released
	Releases    []string
}

type PkgSpec struct {
	Dir      string
	PkgName  string
	PkgPath  string
	RawGo    []string
	Imports  map[string]string // alias -> path (extra)
	Funcs    []*FuncSpec
	Uses     []string // trusted spec files used
	Stable   []string
	Guarded  map[string]*GuardRule // component ("T.f") -> rule
	GenFiles  map[string][]byte
	InlineExt []string
	Opaque    []string
	Callers   []*CallersRule
	NonBlock  []*CallersRule // "nonblocking F1, F2": Allowed holds the functions
	FieldTags    []*CallersRule // "fieldtag T.f KEY VALUE"
	InitValues   []*CallersRule // "initvalues VAR all|some RE": Callee = VAR, Allowed = {mode, re}
	StoredFields []*CallersRule // "storedfields T1, T2": Allowed holds the type names
	FrozenAfter   []*CallersRule // "frozenafter F : CALLEE": Allowed[0] is F
	NeverAssigned []*CallersRule // "neverassigned T.f, T.g": Allowed holds the fields
	Axioms    []*FuncSpec
}

// GuardRule: "guarded_by T.mu : T.f ..." (every access of T.f needs held(&x.mu)) or
// "written_under T.mu : T.f ..." (every write does; reads are free). In both cases acquiring x.mu forgets T.f.
type GuardRule struct {
	Mutex     string // "T.mu"
	WriteOnly bool
	Label     string
	Tags      []string
	File      string
	Line      int
}

// CallersRule: a structural obligation over the call graph of /repo.
type CallersRule struct {
	Callee  string
	Allowed []string
	Label   string
	Tags    []string
	File    string
	Line    int
}

var kwRe = regexp.MustCompile(`^(requires|ensures|assume|returns|observe|ghostset|modifies|cover|loop|results|nopanic|inline|unroll|atcall|handler|intmode|reveal|acquiresread|releasesread|acquires|releases|lockexempt|readslocked|spawned)\b`)

// readSpecLines extracts the //@ lines of a file ("\" continues a line).
func readSpecLines(path string) ([]string, []int, error) {
	data, err := os.ReadFile(path)
	if err != nil {
		return nil, nil, err
	}
	var out []string
	var lines []int
	cont := false
	for i, l := range strings.Split(string(data), "\n") {
		t := strings.TrimSpace(l)
		if strings.HasSuffix(path, ".spec") {
			if strings.HasPrefix(t, "#") {
				continue
			}
		} else {
			if !strings.HasPrefix(t, "//@") {
				continue
			}
			t = strings.TrimPrefix(t, "//@")
			if strings.HasPrefix(t, " ") {
				t = t[1:]
			}
		}
		raw := t
		if cont {
			out[len(out)-1] += " " + strings.TrimSpace(strings.TrimSuffix(raw, "\\"))
		} else {
			out = append(out, strings.TrimSuffix(raw, "\\"))
			lines = append(lines, i+1)
		}
		cont = strings.HasSuffix(raw, "\\")
	}
	return out, lines, nil
}

var labelRe = regexp.MustCompile(`\s#([A-Za-z0-9_.\-]+)`)
var tagRe = regexp.MustCompile(`\s@([A-Z0-9,]+)\s*$`)

var timeoutRe = regexp.MustCompile(`\s%([0-9]+)\s*$`)

// clauseTimeouts remembers "%N" suffixes (per-solver seconds) by label.
var clauseTimeouts = map[string]int{}

func splitLabelTags(s string) (text, label string, tags []string) {
	tmo := 0
	if m := timeoutRe.FindStringSubmatchIndex(s); m != nil {
		tmo, _ = strconv.Atoi(s[m[2]:m[3]])
		s = s[:m[0]]
	}
	defer func() {
		if tmo > 0 && label != "" {
			clauseTimeouts[label] = tmo
		}
	}()
	if m := tagRe.FindStringSubmatchIndex(s); m != nil {
		tags = strings.Split(s[m[2]:m[3]], ",")
		s = s[:m[0]]
	}
	if m := labelRe.FindAllStringSubmatchIndex(s, -1); m != nil {
		last := m[len(m)-1]
		// only treat as label if it is at the end
		if strings.TrimSpace(s[last[1]:]) == "" {
			label = s[last[2]:last[3]]
			s = s[:last[0]]
		}
	}
	return strings.TrimSpace(s), label, tags
}

func parseSpecFile(path string, ps *PkgSpec, trustedFile bool) error {
	ls, lns, err := readSpecLines(path)
	if err != nil {
		return err
	}
	var cur *FuncSpec
	inGo := false
	for i, l := range ls {
		ln := lns[i]
		t := strings.TrimSpace(l)
		if inGo {
			if t == "end" {
				inGo = false
				continue
			}
			ps.RawGo = append(ps.RawGo, l)
			continue
		}
		if t == "" {
			continue
		}
		switch {
		case t == "go:":
			inGo = true
			cur = nil
		case strings.HasPrefix(t, "import "):
			f := strings.Fields(t)
			var alias, p string
			if len(f) == 2 {
				p, _ = strconv.Unquote(f[1])
				alias = defaultAlias(p)
			} else if len(f) == 3 {
				alias = f[1]
				p, _ = strconv.Unquote(f[2])
			}
			if p == "" {
				return fmt.Errorf("%s:%d: bad import", path, ln)
			}
			if ps.Imports == nil {
				ps.Imports = map[string]string{}
			}
			ps.Imports[alias] = p
		case strings.HasPrefix(t, "use "):
			ps.Uses = append(ps.Uses, strings.Fields(t)[1:]...)
		case strings.HasPrefix(t, "axiom "):
			// axiom EXPR      a fact about package-level variables that holds in every state (assumed, listed)
			text, label, _ := splitLabelTags(" " + strings.TrimPrefix(t, "axiom "))
			fs := &FuncSpec{Key: fmt.Sprintf("axiom:%s:%d", filepath.Base(path), ln), Ghost: true, Trusted: trustedFile, File: path, Line: ln}
			fs.Clauses = append(fs.Clauses, &Clause{Kind: KValInv, Text: "() :: " + text, Label: label, File: path, Line: ln})
			ps.Funcs = append(ps.Funcs, fs)
			ps.Axioms = append(ps.Axioms, fs)
			cur = nil
		case strings.HasPrefix(t, "callers "):
			// callers KEY only F1, F2 #label @tags     every call of KEY in /repo sits in one of the listed functions
			rest := strings.TrimPrefix(t, "callers ")
			oi := strings.Index(rest, " only ")
			if oi < 0 {
				return fmt.Errorf("%s:%d: callers KEY only F1, F2", path, ln)
			}
			text, label, tags := splitLabelTags(" " + rest[oi+6:])
			var allowed []string
			for _, a := range strings.Split(text, ",") {
				allowed = append(allowed, strings.TrimSpace(a))
			}
			ps.Callers = append(ps.Callers, &CallersRule{Callee: strings.TrimSpace(rest[:oi]), Allowed: allowed, Label: label, Tags: tags, File: path, Line: ln})
			cur = nil
		case strings.HasPrefix(t, "fieldtag "):
			// fieldtag T.f KEY "VALUE" #label @tags   the struct tag of field f of type T has KEY:"VALUE" (the name
			// under which a configuration or wire field is read: a typo makes the decoder ignore it silently)
			text, label, tags := splitLabelTags(" " + strings.TrimPrefix(t, "fieldtag "))
			f := strings.Fields(strings.TrimSpace(text))
			if len(f) != 3 {
				return fmt.Errorf("%s:%d: fieldtag T.f KEY \"VALUE\"", path, ln)
			}
			val, err := strconv.Unquote(f[2])
			if err != nil {
				return fmt.Errorf("%s:%d: fieldtag: bad quoted value", path, ln)
			}
			ps.FieldTags = append(ps.FieldTags, &CallersRule{Callee: f[0], Allowed: []string{f[1], val}, Label: label, Tags: tags, File: path, Line: ln})
			cur = nil
		case strings.HasPrefix(t, "initvalues "):
			// initvalues VAR all|some "GO-REGEXP" #label @tags   the string literals in the initialiser of the
			// package-level variable VAR all match / at least one matches the expression (SQL text, schemas)
			text, label, tags := splitLabelTags(" " + strings.TrimPrefix(t, "initvalues "))
			f := strings.SplitN(strings.TrimSpace(text), " ", 3)
			if len(f) != 3 || (f[1] != "all" && f[1] != "some") {
				return fmt.Errorf("%s:%d: initvalues VAR all|some \"REGEXP\"", path, ln)
			}
			re, err := strconv.Unquote(strings.TrimSpace(f[2]))
			if err != nil {
				return fmt.Errorf("%s:%d: initvalues: bad quoted expression: %v", path, ln, err)
			}
			ps.InitValues = append(ps.InitValues, &CallersRule{Callee: f[0], Allowed: []string{f[1], re}, Label: label, Tags: tags, File: path, Line: ln})
			cur = nil
		case strings.HasPrefix(t, "storedfields "):
			// storedfields T1, T2 #label @tags   every field of the named struct types (and of the /repo struct types
			// they contain) is exported: encoding/gob and encoding/json store exported fields only
			text, label, tags := splitLabelTags(" " + strings.TrimPrefix(t, "storedfields "))
			var ts []string
			for _, a := range strings.Split(text, ",") {
				ts = append(ts, strings.TrimSpace(a))
			}
			ps.StoredFields = append(ps.StoredFields, &CallersRule{Allowed: ts, Label: label, Tags: tags, File: path, Line: ln})
			cur = nil
		case strings.HasPrefix(t, "frozenafter "):
			// frozenafter F : CALLEE #label @tags   in function F nothing reachable after a call of CALLEE writes into a
			// map or through a field, element or pointer (only F's own variable and result cells are assigned): what was
			// handed to CALLEE (signed, say) is what F returns
			text, label, tags := splitLabelTags(" " + strings.TrimPrefix(t, "frozenafter "))
			parts := strings.SplitN(text, ":", 2)
			if len(parts) != 2 {
				return fmt.Errorf("%s:%d: frozenafter F : CALLEE", path, ln)
			}
			ps.FrozenAfter = append(ps.FrozenAfter, &CallersRule{Callee: strings.TrimSpace(parts[1]), Allowed: []string{strings.TrimSpace(parts[0])}, Label: label, Tags: tags, File: path, Line: ln})
			cur = nil
		case strings.HasPrefix(t, "neverassigned "):
			// neverassigned T.f, T.g #label @tags   no function of /repo stores to the named fields (they are set by
			// the configuration parser, through reflection, and by nothing else)
			text, label, tags := splitLabelTags(" " + strings.TrimPrefix(t, "neverassigned "))
			var ts []string
			for _, a := range strings.Split(text, ",") {
				ts = append(ts, strings.TrimSpace(a))
			}
			ps.NeverAssigned = append(ps.NeverAssigned, &CallersRule{Allowed: ts, Label: label, Tags: tags, File: path, Line: ln})
			cur = nil
		case strings.HasPrefix(t, "nonblocking "):
			// nonblocking F1, F2 #label @tags   the functions (and what they call inside /repo) never block on a channel
			text, label, tags := splitLabelTags(" " + strings.TrimPrefix(t, "nonblocking "))
			var fns []string
			for _, a := range strings.Split(text, ",") {
				fns = append(fns, strings.TrimSpace(a))
			}
			ps.NonBlock = append(ps.NonBlock, &CallersRule{Allowed: fns, Label: label, Tags: tags, File: path, Line: ln})
			cur = nil
		case strings.HasPrefix(t, "inline_external "):
			ps.InlineExt = append(ps.InlineExt, strings.TrimSpace(strings.TrimPrefix(t, "inline_external ")))
		case strings.HasPrefix(t, "stable "):
			ps.Stable = append(ps.Stable, strings.Fields(t)[1:]...)
		case strings.HasPrefix(t, "guarded_by ") || strings.HasPrefix(t, "written_under "):
			// guarded_by T.mu : T.f T.g ... #label @tags
			wo := strings.HasPrefix(t, "written_under ")
			rest := strings.TrimPrefix(strings.TrimPrefix(t, "guarded_by "), "written_under ")
			text, label, tags := splitLabelTags(" " + rest)
			parts := strings.SplitN(text, ":", 2)
			if len(parts) != 2 {
				return fmt.Errorf("%s:%d: guarded_by T.mu : T.f ...", path, ln)
			}
			if ps.Guarded == nil {
				ps.Guarded = map[string]*GuardRule{}
			}
			for _, c := range strings.Fields(parts[1]) {
				ps.Guarded[c] = &GuardRule{Mutex: strings.TrimSpace(parts[0]), WriteOnly: wo, Label: label, Tags: tags, File: path, Line: ln}
			}
			cur = nil
		case strings.HasPrefix(t, "convinv "):
			// convinv PKGPATH.TYPE (s string) :: EXPR #label @tags    obligation at every conversion of a
			// non-constant value to the named type anywhere in the package (e.g. html/template.HTML)
			rest := strings.TrimPrefix(t, "convinv ")
			sp := strings.Index(rest, " ")
			tname := rest[:sp]
			text, label, tags := splitLabelTags(" " + rest[sp+1:])
			key := "convinv:" + tname
			var fs *FuncSpec
			for _, x := range ps.Funcs {
				if x.Key == key {
					fs = x
				}
			}
			if fs == nil {
				fs = &FuncSpec{Key: key, Ghost: true, File: path, Line: ln}
				ps.Funcs = append(ps.Funcs, fs)
			}
			fs.Clauses = append(fs.Clauses, &Clause{Kind: KValInv, Text: text, Label: label, Tags: tags, File: path, Line: ln, Callee: tname})
			cur = nil
		case strings.HasPrefix(t, "valinv ") || strings.HasPrefix(t, "typeinv ") || strings.HasPrefix(t, "heapinv "):
			// valinv TYPE (v TYPE) :: EXPR #label @tags     invariant of map-held values (checked at stores)
			// typeinv PKGPATH.TYPE (v T) :: EXPR            assumed invariant of a library type (trusted)
			isType := strings.HasPrefix(t, "typeinv ") || strings.HasPrefix(t, "heapinv ")
			isHeap := strings.HasPrefix(t, "heapinv ")
			rest := strings.TrimPrefix(strings.TrimPrefix(strings.TrimPrefix(t, "valinv "), "typeinv "), "heapinv ")
			sp := strings.Index(rest, " ")
			tname := rest[:sp]
			text, label, tags := splitLabelTags(" " + rest[sp+1:])
			var fs *FuncSpec
			key := "valinv:" + tname
			if isType {
				key = "typeinv:" + tname
			}
			if isHeap {
				// heapinv PKG.TYPE (p *T) :: EXPR   invariant of every object of a library type, in every state (trusted)
				key = "heapinv:" + tname
			}
			for _, x := range ps.Funcs {
				if x.Key == key {
					fs = x
				}
			}
			if fs == nil {
				fs = &FuncSpec{Key: key, Ghost: true, Trusted: isType, File: path, Line: ln}
				ps.Funcs = append(ps.Funcs, fs)
			}
			fs.Clauses = append(fs.Clauses, &Clause{Kind: KValInv, Text: text, Label: label, Tags: tags, File: path, Line: ln, Callee: tname})
			cur = nil
		case strings.HasPrefix(t, "ghost var "):
			ps.RawGo = append(ps.RawGo, "var "+strings.TrimPrefix(t, "ghost var "))
			cur = nil
		case strings.HasPrefix(t, "ghost func "):
			// uninterpreted function
			sig := strings.TrimPrefix(t, "ghost func ")
			ps.RawGo = append(ps.RawGo, "func "+sig+" { panic(\"ghost\") }")
			cur = nil
		case strings.HasPrefix(t, "pure func ") || strings.HasPrefix(t, "opaque func "):
			// pure func NAME(params) RET = EXPR      (opaque: an uninterpreted symbol unless a contract says "reveal NAME")
			rest := strings.TrimPrefix(strings.TrimPrefix(t, "pure func "), "opaque func ")
			if strings.HasPrefix(t, "opaque ") {
				ps.Opaque = append(ps.Opaque, rest[:strings.Index(rest, "(")])
			}
			eq := topLevelIndex(rest, " = ")
			if eq < 0 {
				return fmt.Errorf("%s:%d: pure func needs ' = expr'", path, ln)
			}
			ps.RawGo = append(ps.RawGo, "func "+rest[:eq]+" { return "+conv(rest[eq+3:])+" }")
			cur = nil
		case strings.HasPrefix(t, "func "):
			key := strings.TrimSpace(strings.TrimPrefix(t, "func "))
			cur = nil
			for _, x := range ps.Funcs {
				if x.Key == key && !x.Trusted {
					cur = x // a second block for the same function extends the first
				}
			}
			if cur == nil {
				cur = &FuncSpec{Key: key, File: path, Line: ln, Verify: true}
				ps.Funcs = append(ps.Funcs, cur)
			}
		case strings.HasPrefix(t, "trusted "):
			// trusted KEY func(params) (results)   |  trusted iface KEY func(...)
			rest := strings.TrimPrefix(t, "trusted ")
			iface := false
			if strings.HasPrefix(rest, "iface ") {
				iface = true
				rest = strings.TrimPrefix(rest, "iface ")
			}
			idx := strings.Index(rest, " func(")
			if idx < 0 {
				return fmt.Errorf("%s:%d: trusted needs KEY func(sig)", path, ln)
			}
			cur = &FuncSpec{Key: strings.TrimSpace(rest[:idx]), Trusted: true, Iface: iface,
				Sig: strings.TrimSpace(rest[idx+5:]), File: path, Line: ln, ModNone: true}
			ps.Funcs = append(ps.Funcs, cur)
		case kwRe.MatchString(t):
			if cur == nil {
				return fmt.Errorf("%s:%d: clause outside a func block: %s", path, ln, t)
			}
			kw := kwRe.FindString(t)
			rest := strings.TrimSpace(t[len(kw):])
			switch kw {
			case "results":
				for _, r := range strings.Split(rest, ",") {
					cur.Results = append(cur.Results, strings.TrimSpace(r))
				}
			case "nopanic":
				// nopanic [kinds k1 k2 ...] @tags   kinds: nil nilresult index slice divzero typeassert (default: all)
				cur.NoPanic = true
				text, _, tags := splitLabelTags(" " + rest)
				cur.NoPanicT = tags
				if f := strings.Fields(text); len(f) > 1 && f[0] == "kinds" {
					cur.NoPanicKinds = map[string]bool{}
					for _, k := range f[1:] {
						cur.NoPanicKinds[k] = true
					}
				}
			case "ghostset":
				// ghostset VAR TYPE = EXPR [if COND]
				eqi := strings.Index(rest, " = ")
				f := strings.Fields(rest[:eqi])
				val := strings.TrimSpace(rest[eqi+3:])
				cond := "true"
				if ci := topLevelIndex(val, " if "); ci >= 0 {
					cond = strings.TrimSpace(val[ci+4:])
					val = strings.TrimSpace(val[:ci])
				}
				cur.Clauses = append(cur.Clauses, &Clause{Kind: KGhostSet, Label: f[0], Callee: strings.Join(f[1:], " "), Text: val, Cond: cond, File: path, Line: ln})
			case "observe":
				// observe NAME TYPE = EXPR
				eqi := strings.Index(rest, " = ")
				f := strings.Fields(rest[:eqi])
				cur.Clauses = append(cur.Clauses, &Clause{Kind: KObserve, Label: f[0], Callee: strings.Join(f[1:], " "), Text: strings.TrimSpace(rest[eqi+3:]), File: path, Line: ln})
			case "inline":
				cur.Inline = rest
			case "readslocked":
				// in this function the reads of write-guarded fields need the mutex too (it is the function whose
				// answer must not be a half-updated state)
				cur.ReadsLocked = true
			case "lockexempt":
				_, label, _ := splitLabelTags(" " + rest)
				if label == "" {
					return fmt.Errorf("%s:%d: lockexempt needs a #label saying why", path, ln)
				}
				cur.LockExempt = label
			case "acquiresread":
				// a shared (read) acquisition: reads of what the mutex guards are allowed, writes are not
				for _, pn := range strings.Fields(rest) {
					cur.Acquires = append(cur.Acquires, "read:"+pn)
				}
			case "releasesread":
				for _, pn := range strings.Fields(rest) {
					cur.Releases = append(cur.Releases, "read:"+pn)
				}
			case "acquires":
				cur.Acquires = append(cur.Acquires, strings.Fields(rest)...)
			case "releases":
				cur.Releases = append(cur.Releases, strings.Fields(rest)...)
			case "intmode":
				cur.IntMode = rest
			case "reveal":
				cur.Reveal = append(cur.Reveal, strings.Fields(rest)...)
			case "handler":
				cur.Handler = "route " + rest
			case "spawned":
				// spawned checked: the bodies of goroutines this function starts are run once, in the state of the go
				// statement, against the call-site clauses of this contract (their effects on the starter are dropped)
				if strings.TrimSpace(rest) != "checked" {
					return fmt.Errorf("%s:%d: spawned checked", path, ln)
				}
				cur.SpawnChecked = true
			case "unroll":
				f := strings.Fields(rest) // unroll <loop> <n>
				if len(f) != 2 {
					return fmt.Errorf("%s:%d: unroll <loop> <n>", path, ln)
				}
				a, _ := strconv.Atoi(f[0])
				b, _ := strconv.Atoi(f[1])
				if cur.Unroll == nil {
					cur.Unroll = map[int]int{}
				}
				cur.Unroll[a] = b
			case "modifies":
				text, _, _ := splitLabelTags(" " + rest)
				cur.ModNone = false
				for _, m := range splitTop(text, ',') {
					m = strings.TrimSpace(m)
					switch {
					case m == "nothing":
						cur.ModNone = true
					case m == "everything":
						cur.ModAll = true
					case strings.HasPrefix(m, "comp(") && strings.HasSuffix(m, ")"):
						cur.ModComps = append(cur.ModComps, m[5:len(m)-1])
					default:
						cur.Clauses = append(cur.Clauses, &Clause{Kind: KModifies, Text: m, File: path, Line: ln})
					}
				}
			case "loop":
				// loop K [(name type, ...)] invariant EXPR
				f := strings.SplitN(rest, " ", 2)
				k, err := strconv.Atoi(f[0])
				if err != nil || len(f) < 2 {
					return fmt.Errorf("%s:%d: loop K ...", path, ln)
				}
				r2 := strings.TrimSpace(f[1])
				if strings.HasPrefix(r2, "exhaustive") {
					// loop K exhaustive #label @tags   the loop is left only from its header (a range loop: when the
					// iteration is complete): no return, break or goto out of its body
					_, label, tags := splitLabelTags(" " + strings.TrimPrefix(r2, "exhaustive"))
					cur.Clauses = append(cur.Clauses, &Clause{Kind: KExhaustive, Label: label, Tags: tags, Loop: k, File: path, Line: ln})
					break
				}
				var locals []string
				if strings.HasPrefix(r2, "(") {
					end := matchParen(r2, 0)
					for _, p := range splitTop(r2[1:end], ',') {
						locals = append(locals, strings.TrimSpace(p))
					}
					r2 = strings.TrimSpace(r2[end+1:])
				}
				if !strings.HasPrefix(r2, "invariant ") {
					return fmt.Errorf("%s:%d: loop K (...) invariant EXPR", path, ln)
				}
				text, label, tags := splitLabelTags(" " + strings.TrimPrefix(r2, "invariant "))
				cur.Clauses = append(cur.Clauses, &Clause{Kind: KInvariant, Text: text, Label: label, Tags: tags, Loop: k, Locals: locals, File: path, Line: ln})
			case "atcall":
				// atcall CALLEEKEY requires EXPR   (expression over the callee's parameters p0.. / named)
				// atcall KEY requires (params) :: EXPR      additional call-site assertion
				// atcall KEY overrides LABEL (params) :: EXPR  replaces the callee's clause LABEL at the call sites in this function
				if si := strings.Index(rest, " sets "); si >= 0 && strings.Index(rest, " requires ") < 0 && strings.Index(rest, " overrides ") < 0 {
					callee := strings.TrimSpace(rest[:si])
					r3 := strings.TrimSpace(rest[si+6:])
					pi := strings.Index(r3, "(")
					f := strings.Fields(r3[:pi])
					end := matchParen(r3, pi)
					params := r3[pi+1 : end]
					val := strings.TrimSpace(strings.TrimPrefix(strings.TrimSpace(r3[end+1:]), "::"))
					cond := "true"
					if ci := topLevelIndex(val, " if "); ci >= 0 {
						cond = strings.TrimSpace(val[ci+4:])
						val = strings.TrimSpace(val[:ci])
					}
					cur.Clauses = append(cur.Clauses, &Clause{Kind: KAtCallSet, Callee: callee, Label: f[0], VarType: strings.Join(f[1:], " "), Locals: []string{params}, Text: val, Cond: cond, File: path, Line: ln})
					break
				}
				// atcall KEY establishes (params) :: EXPR   like requires, and the proved fact is kept for what follows
				// (a lemma at a program point: later obligations may use it; if it fails it is the violation)
				establishes := false
				if ei := strings.Index(rest, " establishes "); ei >= 0 && strings.Index(rest, " requires ") < 0 && strings.Index(rest, " overrides ") < 0 {
					rest = rest[:ei] + " requires " + rest[ei+13:]
					establishes = true
				}
				idx := strings.Index(rest, " requires ")
				overrides := ""
				skip := 10
				if idx < 0 {
					idx = strings.Index(rest, " overrides ")
					if idx < 0 {
						return fmt.Errorf("%s:%d: atcall KEY requires|overrides ...", path, ln)
					}
					r3 := strings.TrimSpace(rest[idx+11:])
					sp := strings.IndexAny(r3, " (")
					overrides = r3[:sp]
					skip = 11 + strings.Index(rest[idx+11:], overrides) + len(overrides)
				}
				text, label, tags := splitLabelTags(" " + rest[idx+skip:])
				if overrides != "" && label == "" {
					label = overrides + ".override"
				}
				cur.Clauses = append(cur.Clauses, &Clause{Kind: KAssertCall, Callee: strings.TrimSpace(rest[:idx]), Text: text, Label: label, Tags: tags, File: path, Line: ln, Overrides: overrides, Establishes: establishes})
			default:
				text, label, tags := splitLabelTags(" " + rest)
				kind := map[string]ClauseKind{"requires": KRequires, "ensures": KEnsures, "assume": KEnsures, "cover": KCover, "returns": KReturns}[kw]
				sinceLock := ""
				if kw == "ensures" && strings.HasPrefix(strings.TrimSpace(text), "sincelock ") {
					sinceLock = "last"
					text = " " + strings.TrimPrefix(strings.TrimSpace(text), "sincelock ")
				} else if kw == "ensures" && strings.HasPrefix(strings.TrimSpace(text), "sincefirstlock ") {
					sinceLock = "first"
					text = " " + strings.TrimPrefix(strings.TrimSpace(text), "sincefirstlock ")
				}
				cur.Clauses = append(cur.Clauses, &Clause{Kind: kind, Text: text, Label: label, Tags: tags, File: path, Line: ln, Assumed: kw == "assume", SinceLock: sinceLock})
			}
		default:
			return fmt.Errorf("%s:%d: cannot parse spec line: %q", path, ln, t)
		}
	}
	return nil
}

// ---- textual preprocessing of spec expressions -------------------------------------

func matchParen(s string, i int) int {
	open := s[i]
	var close byte
	switch open {
	case '(':
		close = ')'
	case '[':
		close = ']'
	case '{':
		close = '}'
	}
	depth := 0
	for j := i; j < len(s); j++ {
		c := s[j]
		switch {
		case c == '"' || c == '`' || c == '\'':
			j = skipLit(s, j)
		case c == open:
			depth++
		case c == close:
			depth--
			if depth == 0 {
				return j
			}
		}
	}
	return len(s) - 1
}

func skipLit(s string, j int) int {
	q := s[j]
	for k := j + 1; k < len(s); k++ {
		if s[k] == '\\' && q != '`' {
			k++
			continue
		}
		if s[k] == q {
			return k
		}
	}
	return len(s) - 1
}

func topLevelIndex(s, op string) int {
	depth := 0
	for j := 0; j < len(s); j++ {
		c := s[j]
		switch c {
		case '"', '`', '\'':
			j = skipLit(s, j)
			continue
		case '(', '[', '{':
			depth++
		case ')', ']', '}':
			depth--
		}
		if depth == 0 && strings.HasPrefix(s[j:], op) {
			// do not take "==>" inside "<==>"
			if op == "==>" && j > 0 && s[j-1] == '<' {
				continue
			}
			return j
		}
	}
	return -1
}

func splitTop(s string, sep byte) []string {
	var out []string
	depth := 0
	start := 0
	for j := 0; j < len(s); j++ {
		c := s[j]
		switch c {
		case '"', '`', '\'':
			j = skipLit(s, j)
			continue
		case '(', '[', '{':
			depth++
		case ')', ']', '}':
			depth--
		}
		if depth == 0 && c == sep {
			out = append(out, s[start:j])
			start = j + 1
		}
	}
	if strings.TrimSpace(s[start:]) != "" || len(out) > 0 {
		out = append(out, s[start:])
	}
	return out
}

var quantRe = regexp.MustCompile(`^\s*(forall|exists|forallIdx|existsIdx)\s+([A-Za-z_][A-Za-z0-9_]*)\s+([^:]+?)\s*::`)

var quant2Re = regexp.MustCompile(`^\s*(forall|exists)\s+([A-Za-z_][A-Za-z0-9_]*)\s+([^:,]+?)\s*,\s*([A-Za-z_][A-Za-z0-9_]*)\s+([^:,]+?)\s*::`)

// conv rewrites  a ==> b,  a <==> b,  (forall x T :: e),  (exists x T :: e)  into Go calls.
func conv(s string) string {
	s = strings.TrimSpace(s)
	if m := quant2Re.FindStringSubmatchIndex(s); m != nil {
		q, v1, t1, v2, t2 := s[m[2]:m[3]], s[m[4]:m[5]], s[m[6]:m[7]], s[m[8]:m[9]], s[m[10]:m[11]]
		return fmt.Sprintf("%s2(func(%s %s, %s %s) bool { return %s })", q, v1, t1, v2, t2, conv(s[m[1]:]))
	}
	if m := quantRe.FindStringSubmatchIndex(s); m != nil {
		q, v, ty := s[m[2]:m[3]], s[m[4]:m[5]], s[m[6]:m[7]]
		body := s[m[1]:]
		return fmt.Sprintf("%s(func(%s %s) bool { return %s })", q, v, ty, conv(body))
	}
	if i := topLevelIndex(s, "<==>"); i >= 0 {
		return "iff(" + conv(s[:i]) + ", " + conv(s[i+4:]) + ")"
	}
	if i := topLevelIndex(s, "==>"); i >= 0 {
		return "implies(" + conv(s[:i]) + ", " + conv(s[i+3:]) + ")"
	}
	// descend into groups
	var b strings.Builder
	for j := 0; j < len(s); j++ {
		c := s[j]
		switch c {
		case '"', '`', '\'':
			k := skipLit(s, j)
			b.WriteString(s[j : k+1])
			j = k
		case '(', '[', '{':
			k := matchParen(s, j)
			inner := s[j+1 : k]
			sep := byte(',')
			if c == '{' {
				sep = ';'
			}
			parts := splitTop(inner, sep)
			if c == '(' && (quantRe.MatchString(inner) || quant2Re.MatchString(inner)) {
				parts = []string{inner}
			}
			b.WriteByte(c)
			for pi, p := range parts {
				if pi > 0 {
					b.WriteByte(sep)
				}
				if c == '{' && strings.HasPrefix(strings.TrimSpace(p), "return ") {
					b.WriteString(" return " + conv(strings.TrimPrefix(strings.TrimSpace(p), "return ")))
				} else {
					b.WriteString(conv(p))
				}
			}
			b.WriteByte(s[k])
			j = k
		default:
			b.WriteByte(c)
		}
	}
	return b.String()
}

// ---- source signatures --------------------------------------------------------------

type srcFunc struct {
	decl    *ast.FuncDecl
	file    *ast.File
	fset    *token.FileSet
	imports map[string]string
	lemma   bool // a ghost function written in a "go:" block of a contract file
}

func exprString(fset *token.FileSet, e ast.Expr) string {
	var b bytes.Buffer
	printer.Fprint(&b, fset, e)
	return b.String()
}

func funcKeyOfDecl(fset *token.FileSet, d *ast.FuncDecl) string {
	if d.Recv == nil || len(d.Recv.List) == 0 {
		return d.Name.Name
	}
	rt := exprString(fset, d.Recv.List[0].Type)
	if strings.HasPrefix(rt, "*") {
		return "(*" + rt[1:] + ")." + d.Name.Name
	}
	return "(" + rt + ")." + d.Name.Name
}

func parsePkgSources(dir string) (map[string]*srcFunc, string, error) {
	fset := token.NewFileSet()
	ents, err := os.ReadDir(dir)
	if err != nil {
		return nil, "", err
	}
	out := map[string]*srcFunc{}
	pkgName := ""
	for _, e := range ents {
		n := e.Name()
		if !strings.HasSuffix(n, ".go") || strings.HasSuffix(n, "_test.go") || strings.HasPrefix(n, "zz_verif") {
			continue
		}
		f, err := parser.ParseFile(fset, filepath.Join(dir, n), nil, parser.SkipObjectResolution)
		if err != nil {
			return nil, "", err
		}
		// skip files excluded by build constraints we care about (windows etc.) - cheap test
		skip := false
		for _, cg := range f.Comments {
			if cg.Pos() > f.Package {
				break
			}
			for _, c := range cg.List {
				if strings.HasPrefix(c.Text, "//go:build") {
					expr := strings.TrimSpace(strings.TrimPrefix(c.Text, "//go:build"))
					if strings.Contains(expr, "windows") && !strings.Contains(expr, "!windows") ||
						expr == "ignore" || strings.Contains(expr, "darwin") && !strings.Contains(expr, "!darwin") && !strings.Contains(expr, "linux") {
						skip = true
					}
				}
			}
		}
		if strings.HasSuffix(n, "_windows.go") || strings.HasSuffix(n, "_darwin.go") {
			skip = true
		}
		if skip {
			continue
		}
		if f.Name.Name != "main" || pkgName == "" {
			pkgName = f.Name.Name
		}
		imps := map[string]string{}
		for _, im := range f.Imports {
			p, _ := strconv.Unquote(im.Path.Value)
			alias := ""
			if im.Name != nil {
				alias = im.Name.Name
			}
			imps[p] = alias
		}
		for _, d := range f.Decls {
			if fd, ok := d.(*ast.FuncDecl); ok {
				out[funcKeyOfDecl(fset, fd)] = &srcFunc{decl: fd, file: f, fset: fset, imports: imps}
			}
		}
	}
	return out, pkgName, nil
}

// fieldListDecl renders a field list as "a T, b U" giving names to unnamed entries.
func fieldListDecl(fset *token.FileSet, fl *ast.FieldList, prefix string, override []string) (decl string, names []string) {
	if fl == nil {
		return "", nil
	}
	var parts []string
	n := 0
	for _, f := range fl.List {
		ts := exprString(fset, f.Type)
		if strings.HasPrefix(ts, "...") {
			ts = "[]" + ts[3:]
		}
		if len(f.Names) == 0 {
			name := fmt.Sprintf("%s%d", prefix, n)
			if n < len(override) && override[n] != "" {
				name = override[n]
			}
			names = append(names, name)
			parts = append(parts, name+" "+ts)
			n++
			continue
		}
		for _, id := range f.Names {
			name := id.Name
			if name == "_" {
				name = fmt.Sprintf("%s%d", prefix, n)
			}
			if n < len(override) && override[n] != "" {
				name = override[n]
			}
			names = append(names, name)
			parts = append(parts, name+" "+ts)
			n++
		}
	}
	return strings.Join(parts, ", "), names
}

const preludeGo = `
func implies(a, b bool) bool { panic("ghost") }
func iff(a, b bool) bool { panic("ghost") }
func forall[T any](f func(T) bool) bool { panic("ghost") }
func exists[T any](f func(T) bool) bool { panic("ghost") }
func forall2[T any, U any](f func(T, U) bool) bool { panic("ghost") }
func exists2[T any, U any](f func(T, U) bool) bool { panic("ghost") }
func forallIdx(f func(int) bool) bool { panic("ghost") }
func existsIdx(f func(int) bool) bool { panic("ghost") }
func old[T any](x T) T { panic("ghost") }
func isType[T any](x any) bool { panic("ghost") }
func asType[T any](x any) T { panic("ghost") }
func hasKey[K comparable, V any](m map[K]V, k K) bool { panic("ghost") }
func modPointees(s any) { panic("ghost") }
func same[T any](a, b T) bool { panic("ghost") }
func modAddr(p any) { panic("ghost") }
func modElems(s any) { panic("ghost") }
func modMap(m any) { panic("ghost") }
func strPrefixOf(p, s string) bool { panic("ghost") }
func strSuffixOf(p, s string) bool { panic("ghost") }
func strContains(s, sub string) bool { panic("ghost") }
func strIndexOf(s, sub string) int { panic("ghost") }
func strInRe(s string, re string) bool { panic("ghost") }
func strMatchesGoRe(s string, goRegexp string) bool { panic("ghost") }
func strReplaceAll(s, a, b string) string { panic("ghost") }
func strToLower(s string) string { panic("ghost") }
func strTrimPrefix(s, p string) string { panic("ghost") }
func strTrimSuffix(s, p string) string { panic("ghost") }
func strToUpper(s string) string { panic("ghost") }
func bytesToStr(b []byte) string { panic("ghost") }
func nowNanos() int64 { panic("ghost") }
func held(m any) bool { panic("ghost") }
func fpFloor(x float64) float64 { panic("ghost") }
func ult(a, b uint64) bool { panic("ghost") }
func ule(a, b uint64) bool { panic("ghost") }
func timeNanos(t time_.Time) int64 { panic("ghost") }
func nanosTime(n int64) time_.Time { panic("ghost") }
func dynTypeIs(x any, name string) bool { panic("ghost") }
func refOf(x any) uintptr { panic("ghost") }
func fresh(x any) bool { panic("ghost") }
func fmtLiteralPrefix(format string) string { panic("ghost") }
func fmtLiteralAfterFirstVerb(format string) string { panic("ghost") }
func httpStatus(w any) int { panic("ghost") }
`

// generate builds the synthetic file of a package.
// droppedClauses: clauses ("contract file:line") left out of a second load because they name a field or method that
// the code no longer has (main.go: the check then runs on what remains and ends BROKEN unless a violation is found).
var droppedClauses = map[string]bool{}

func (ps *PkgSpec) generate(trustedDir string) error {
	if len(droppedClauses) > 0 {
		for _, fs := range ps.Funcs {
			var keep []*Clause
			for _, c := range fs.Clauses {
				if !droppedClauses[fmt.Sprintf("%s:%d", c.File, c.Line)] {
					keep = append(keep, c)
				}
			}
			fs.Clauses = keep
		}
	}
	srcs, pkgName, err := parsePkgSources(ps.Dir)
	if err != nil {
		return err
	}
	ps.PkgName = pkgName
	imports := map[string]string{} // alias -> path
	addImport := func(alias, path string) error {
		if alias == "" {
			alias = defaultAlias(path)
		}
		if alias == "." || alias == "_" {
			return nil
		}
		if p, ok := imports[alias]; ok && p != path {
			return fmt.Errorf("import alias %s used for %s and %s", alias, p, path)
		}
		imports[alias] = path
		return nil
	}
	addImport("time_", "time")
	for a, p := range ps.Imports {
		if err := addImport(a, p); err != nil {
			return err
		}
	}
	// trusted spec files used by this package
	for _, u := range ps.Uses {
		tp := &PkgSpec{}
		if err := parseSpecFile(filepath.Join(trustedDir, u+".spec"), tp, true); err != nil {
			return err
		}
		for a, p := range tp.Imports {
			if err := addImport(a, p); err != nil {
				return fmt.Errorf("%s.spec: %v", u, err)
			}
		}
		ps.RawGo = append(ps.RawGo, tp.RawGo...)
		ps.Funcs = append(ps.Funcs, tp.Funcs...)
		ps.Stable = append(ps.Stable, tp.Stable...)
		ps.InlineExt = append(ps.InlineExt, tp.InlineExt...)
		ps.Opaque = append(ps.Opaque, tp.Opaque...)
		ps.Callers = append(ps.Callers, tp.Callers...)
		ps.Axioms = append(ps.Axioms, tp.Axioms...)
	}
	var mainBody strings.Builder
	mainBody.WriteString(preludeGo)
	for _, l := range ps.RawGo {
		mainBody.WriteString(l + "\n")
	}
	// lemma functions: ghost Go functions written in a "go:" block of the contract file. A "func NAME"
	// block may put them under contract like a /repo function; they live in the main synthetic file.
	{
		fset := token.NewFileSet()
		if f, err := parser.ParseFile(fset, "zz_verif_spec_gen.go", "package p\n"+strings.Join(ps.RawGo, "\n")+"\n", parser.SkipObjectResolution); err == nil {
			for _, d := range f.Decls {
				if fd, ok := d.(*ast.FuncDecl); ok && fd.Body != nil && fd.Recv == nil {
					if _, dup := srcs[fd.Name.Name]; !dup {
						srcs[fd.Name.Name] = &srcFunc{fset: fset, file: f, decl: fd, imports: map[string]string{}, lemma: true}
					}
				}
			}
		} else if len(ps.RawGo) > 0 {
			return fmt.Errorf("%s: cannot parse the ghost Go code of the contract files: %v", ps.Dir, err)
		}
	}
	// spec functions of /repo functions go to one synthetic file per source file, so that the import
	// names used in the copied signatures mean what they mean in that file
	type genFile struct {
		body    strings.Builder
		imports map[string]string
	}
	perFile := map[string]*genFile{}
	body := &mainBody
	n := 0
	for _, fs := range ps.Funcs {
		var recvDecl, paramDecl, resDecl string
		var pnames, rnames []string
		if strings.HasPrefix(fs.Key, "valinv:") || strings.HasPrefix(fs.Key, "typeinv:") || strings.HasPrefix(fs.Key, "heapinv:") || strings.HasPrefix(fs.Key, "axiom:") || strings.HasPrefix(fs.Key, "convinv:") {
			for _, c := range fs.Clauses {
				n++
				c.GoName = fmt.Sprintf("spec_%d_%s", n, c.Kind)
				txt := strings.TrimSpace(c.Text)
				end := matchParen(txt, 0)
				rest := strings.TrimPrefix(strings.TrimSpace(txt[end+1:]), "::")
				fmt.Fprintf(&mainBody, "func %s(%s) bool { return %s }\n", c.GoName, txt[1:end], conv(rest))
			}
			fs.PkgPath = ps.PkgPath
			continue
		}
		if fs.Trusted {
			// Sig: "(params) (results)" or "(params) T" or "(params)"
			sig := fs.Sig
			end := matchParen(sig, 0)
			ptxt := sig[1:end]
			rtxt := strings.TrimSpace(sig[end+1:])
			src := "package p\nfunc f(" + ptxt + ") " + rtxt + "\n"
			fset := token.NewFileSet()
			f, err := parser.ParseFile(fset, "sig.go", src, 0)
			if err != nil {
				return fmt.Errorf("%s:%d: bad trusted signature: %v", fs.File, fs.Line, err)
			}
			fd := f.Decls[0].(*ast.FuncDecl)
			paramDecl, pnames = fieldListDecl(fset, fd.Type.Params, "p", nil)
			resDecl, rnames = fieldListDecl(fset, fd.Type.Results, "ret", fs.Results)
		} else {
			sf := srcs[fs.Key]
			if sf == nil {
				return fmt.Errorf("%s:%d: function %s not found in %s", fs.File, fs.Line, fs.Key, ps.Dir)
			}
			fname := filepath.Base(sf.fset.Position(sf.file.Pos()).Filename)
			if sf.lemma {
				fname = "lemmas.go" // spec functions of lemma functions: a file of their own with the contract imports
			}
			gf := perFile[fname]
			if gf == nil {
				gf = &genFile{imports: map[string]string{}}
				perFile[fname] = gf
				for p, a := range sf.imports {
					if a == "" {
						a = defaultAlias(p)
					}
					if a != "." && a != "_" {
						gf.imports[a] = p
					}
				}
				// imports requested by the contract file and by the trusted spec files it uses are
				// available too, when the name is free in this source file
				for a, p := range imports {
					if _, ok := gf.imports[a]; !ok {
						gf.imports[a] = p
					}
				}
				if _, ok := gf.imports["time_"]; !ok {
					gf.imports["time_"] = "time"
				}
			}
			body = &gf.body
			if sf.decl.Recv != nil {
				rd, rn := fieldListDecl(sf.fset, sf.decl.Recv, "recv", nil)
				recvDecl = rd
				pnames = append(pnames, rn...)
			}
			pd, pn := fieldListDecl(sf.fset, sf.decl.Type.Params, "p", nil)
			paramDecl = pd
			pnames = append(pnames, pn...)
			resDecl, rnames = fieldListDecl(sf.fset, sf.decl.Type.Results, "ret", fs.Results)
		}
		if fs.Trusted {
			body = &mainBody
		}
		fs.ParamNames = pnames
		fs.ResultNames = rnames
		fs.PkgPath = ps.PkgPath
		join := func(parts ...string) string {
			var o []string
			for _, p := range parts {
				if strings.TrimSpace(p) != "" {
					o = append(o, p)
				}
			}
			return strings.Join(o, ", ")
		}
		for _, c := range fs.Clauses {
			n++
			c.GoName = fmt.Sprintf("spec_%d_%s", n, c.Kind)
			params := join(recvDecl, paramDecl)
			switch c.Kind {
			case KRequires, KAssertCall:
				if c.Kind == KAssertCall {
					// expression over callee parameters: user writes explicit "(a T, b U) :: expr"
					txt := strings.TrimSpace(c.Text)
					if !strings.HasPrefix(txt, "(") {
						return fmt.Errorf("%s:%d: atcall needs (params) :: expr", c.File, c.Line)
					}
					end := matchParen(txt, 0)
					cp := txt[1:end]
					rest := strings.TrimSpace(txt[end+1:])
					rest = strings.TrimPrefix(rest, "::")
					fmt.Fprintf(body, "func %s(%s) bool { return %s }\n", c.GoName, join(params, cp), conv(rest))
				} else {
					fmt.Fprintf(body, "func %s(%s) bool { return %s }\n", c.GoName, params, conv(c.Text))
				}
			case KEnsures, KCover:
				fmt.Fprintf(body, "func %s(%s) bool { return %s }\n", c.GoName, join(params, resDecl), conv(c.Text))
			case KObserve:
				fmt.Fprintf(body, "func %s(%s) %s { return %s }\n", c.GoName, join(params, resDecl), c.Callee, conv(c.Text))
			case KAtCallSet:
				fmt.Fprintf(body, "func %s(%s) %s { return %s }\n", c.GoName, join(params, c.Locals[0]), c.VarType, conv(c.Text))
				fmt.Fprintf(body, "func %s_cond(%s) bool { return %s }\n", c.GoName, join(params, c.Locals[0]), conv(c.Cond))
				fmt.Fprintf(body, "func %s_var() *%s { return &%s }\n", c.GoName, c.VarType, c.Label)
			case KGhostSet:
				fmt.Fprintf(body, "func %s(%s) %s { return %s }\n", c.GoName, join(params, resDecl), c.Callee, conv(c.Text))
				fmt.Fprintf(body, "func %s_cond(%s) bool { return %s }\n", c.GoName, join(params, resDecl), conv(c.Cond))
				fmt.Fprintf(body, "func %s_var() *%s { return &%s }\n", c.GoName, c.Callee, c.Label)
			case KReturns:
				rt := strings.TrimSpace(resDecl)
				if i := strings.Index(rt, " "); i > 0 {
					rt = rt[i+1:]
				}
				fmt.Fprintf(body, "func %s(%s) %s { return %s }\n", c.GoName, params, rt, conv(c.Text))
			case KInvariant:
				fmt.Fprintf(body, "func %s(%s) bool { return %s }\n", c.GoName, join(params, strings.Join(c.Locals, ", ")), conv(c.Text))
			case KModifies:
				t := strings.TrimSpace(c.Text)
				switch {
				case strings.HasPrefix(t, "elems(") && strings.HasSuffix(t, ")"):
					fmt.Fprintf(body, "func %s(%s) { modElems(%s) }\n", c.GoName, join(params, resDecl), t[6:len(t)-1])
				case strings.HasPrefix(t, "map(") && strings.HasSuffix(t, ")"):
					fmt.Fprintf(body, "func %s(%s) { modMap(%s) }\n", c.GoName, join(params, resDecl), t[4:len(t)-1])
				case strings.HasPrefix(t, "pointees(") && strings.HasSuffix(t, ")"):
					fmt.Fprintf(body, "func %s(%s) { modPointees(%s) }\n", c.GoName, join(params, resDecl), t[9:len(t)-1])
				case strings.HasPrefix(t, "ptr(") && strings.HasSuffix(t, ")"):
					fmt.Fprintf(body, "func %s(%s) { modAddr(%s) }\n", c.GoName, join(params, resDecl), t[4:len(t)-1])
				default:
					fmt.Fprintf(body, "func %s(%s) { modAddr(&(%s)) }\n", c.GoName, join(params, resDecl), t)
				}
			}
		}
	}
	ps.GenFiles = map[string][]byte{}
	emit := func(name, text string, imps map[string]string) {
		var hdr strings.Builder
		fmt.Fprintf(&hdr, "package %s\n\n", pkgName)
		var aliases []string
		for a := range imps {
			aliases = append(aliases, a)
		}
		sort.Strings(aliases)
		for _, a := range aliases {
			if regexp.MustCompile(`\b` + regexp.QuoteMeta(a) + `\.`).MatchString(text) {
				fmt.Fprintf(&hdr, "import %s %q\n", a, imps[a])
			}
		}
		ps.GenFiles[filepath.Join(ps.Dir, name)] = []byte(hdr.String() + text)
	}
	emit("zz_verif_spec_gen.go", mainBody.String(), imports)
	for fname, gf := range perFile {
		emit("zz_verif_spec_gen_"+strings.TrimSuffix(fname, ".go")+".go", gf.body.String(), gf.imports)
	}
	return nil
}

func defaultAlias(path string) string {
	alias := filepath.Base(path)
	if len(alias) >= 2 && alias[0] == 'v' && alias[1] >= '0' && alias[1] <= '9' {
		alias = filepath.Base(filepath.Dir(path))
	}
	alias = strings.TrimPrefix(alias, "go-")
	alias = strings.TrimSuffix(alias, ".v2")
	alias = strings.TrimSuffix(alias, ".v3")
	alias = strings.ReplaceAll(alias, "-", "_")
	alias = strings.ReplaceAll(alias, ".", "_")
	return alias
}
