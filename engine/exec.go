package main

// Symbolic execution of go/ssa functions into SMT-LIB: loop-cut passive form with
// block guards, a component-wise heap, contracts at calls, inlining of
// un-contracted /repo callees, and named proof obligations.

import (
	"regexp"
	"fmt"
	"go/constant"
	"go/token"
	"go/types"
	"math/big"
	"sort"
	"strings"

	"golang.org/x/tools/go/ssa"
)

type Val struct {
	T      string // SMT term
	I      string // optional mathematical-integer view
	A      *Addr  // structural address for pointer values
	Tup    []Val
	Allocs []string // alloc constants this value may carry
	Clo    *closure
	Fn     *ssa.Function
	Dyn    *Val       // for interfaces: the boxed value when known
	DynT   types.Type // its type
	Typ    types.Type
	Guard  *guardUse // a map loaded from a lock-protected field: the mutex that protects its contents
}

// guardUse: the lock discipline a value loaded from a protected field carries to the operations on it.
type guardUse struct {
	gi   *guardInfo
	mref string // the mutex (interior pointer term)
}

type guardInfo struct {
	comp      string // protected component
	short     string // "T.f"
	mutexComp string
	mapType   *types.Map // set when the protected field holds a map: its contents are protected too
	rule      *GuardRule
	clause    *Clause
}

type closure struct {
	fn       *ssa.Function
	bindings []Val
}

type pathElem struct {
	acc   string // datatype accessor (field) or "" for index
	si    *structInfo
	fidx  int
	idx   string // array index (BV64)
	esort string
}

type Addr struct {
	Ref  string
	Comp string
	Path []pathElem
	Typ  types.Type // pointee type
}

type Heap struct {
	m     map[string]string
	epoch int
}

func (h *Heap) clone() *Heap {
	n := &Heap{m: make(map[string]string, len(h.m)), epoch: h.epoch}
	for k, v := range h.m {
		n.m[k] = v
	}
	return n
}

type privRef struct {
	ref   string
	comps []string
}

type Obligation struct {
	Name     string
	Func     string
	Kind     string
	Label    string
	Tags     []string
	Pos      string
	Prefix   int // number of script lines
	Guard    string
	Goal     string
	Script   *Script
	Extra    []string
	Cover    bool // expected SAT
	Probe    bool // an outcome probe: unsat is a note in the evidence, not an error
	ClauseAt string
	CallLog  []callRec
	Params   []string
	Structural bool   // decided by the engine itself (call-graph sweep), no solver involved
	StructOK   bool
	StructMsg  string
	Observe  [][2]string // name, term
	consistencyOnly bool // Text() emits only the assumptions (vacuity guard)
	reachOnly       bool // ... plus the path guard (reachability)
	ObservePrefix int
}

type Engine struct {
	prog      *ssa.Program
	ld        *Loader
	specs     map[string]*FuncSpec // full key (pkgpath + "." + key or RelString) -> spec
	stable    map[string]bool      // component names that survive full havoc
	ghostVars map[string]bool
	guarded   map[string]*guardInfo
	dropped   map[string]int
	assumes   map[string]bool
	maxInline int
	opaque    map[string]bool
	inlineMax int
	modSets   map[*ssa.Function]*modSet
	modBusy   map[*ssa.Function]bool
}

// Exec is the state of the verification of one top-level function.
type Exec struct {
	eng       *Engine
	s         *Script
	top       *ssa.Function
	topSpec   *FuncSpec
	obls      []*Obligation
	quiet     int // >0: discovery mode, no obligations
	pure      int // >0: inside quantifier body: do not name terms
	compSort  map[string]string
	priv      []*privRef
	allocN    int
	callOrd   map[string]int
	checkTags map[string]bool // property tags selected ("" = all)
	inlineStk []*ssa.Function
	heldLocks []string
	preHeap   *Heap
	oldVals   map[ssa.Value]Val
	trace     []string
	nopanic   bool
	depthUsed int
	usedSpecs map[string]bool
	inlined   map[string]bool
	havocked  map[string]int
	modRec    *[]modTarget // when evaluating a modifies function
	loopCtx    []*loopCtx
	discover   []*discoverRec
	havocCount int
	oldStack   []map[ssa.Value]Val
	oldCollect []map[ssa.Value]Val
	lastDiscoverWrites [][2]string
	noReassert         bool
	specDepth  int
	quantN     int
	topFrame   *frame
	shadow     map[string]Val
	callLog    []callRec
	curCallee  *ssa.Function
	allAllocs  []string
	lastDiscoverAlloc int
	clauseHit  map[*Clause]bool
	pointeesOnly bool
	heapInvDone  map[string]bool
	holds        map[string][]string // allocation -> allocations stored into it
}

type callRec struct {
	Key     string
	Results []string
}

func (e *Exec) logCall(key string, res Val) {
	if e.specDepth > 0 || e.quiet > 0 {
		return
	}
	r := callRec{Key: key}
	if len(res.Tup) > 0 {
		for _, t := range res.Tup {
			r.Results = append(r.Results, t.T)
		}
	} else if res.T != "" {
		r.Results = []string{res.T}
	}
	e.callLog = append(e.callLog, r)
}

type modTarget struct {
	pointees *Val
	addr  *Addr
	elems *Val
	mp    *Val
}

type frame struct {
	fn      *ssa.Function
	vals    map[ssa.Value]Val
	guard   map[*ssa.BasicBlock]string
	heapOut map[*ssa.BasicBlock]*Heap
	gOut    map[*ssa.BasicBlock]string // guard at block exit
	defers  []deferred
	rets    []retState
	spec    *FuncSpec
	top     bool
	params  []Val
	path    string // inline path for naming
	quantV  map[ssa.Value]Val
}

type deferred struct {
	guardAt string
	call  *ssa.CallCommon
	args  []Val
	block *ssa.BasicBlock
	fnv   Val
	instr ssa.Instruction
}

type retState struct {
	guard string
	heap  *Heap
	vals  []Val
}

func (e *Exec) drop(what string) { e.eng.dropped[what]++ }

// ---------------------------------------------------------------- heap

func (e *Exec) compDecl(comp, sort string) {
	if old, ok := e.compSort[comp]; ok && old != sort {
		panic(fmt.Sprintf("component %s has sorts %s and %s", comp, old, sort))
	}
	e.compSort[comp] = sort
}

func (e *Exec) hget(h *Heap, comp string) string {
	if t, ok := h.m[comp]; ok {
		return t
	}
	sort, ok := e.compSort[comp]
	if !ok {
		panic("unknown component " + comp)
	}
	name := fmt.Sprintf("H%d_%s", h.epoch, sanitize(comp))
	e.s.declConst(name, sort)
	h.m[comp] = name
	return name
}

func (e *Exec) fieldComp(t types.Type, i int) (string, *structInfo) {
	si := e.s.structOf(t)
	key := typeKey(t)
	if _, ok := t.(*types.Named); !ok {
		key = si.name
	}
	comp := "F|" + key + "|" + si.st.Field(i).Name()
	e.compDecl(comp, "(Array Ref "+si.sorts[i]+")")
	return comp, si
}

func (e *Exec) elemComp(elem types.Type) string {
	es := e.s.sortOf(elem)
	comp := "E|" + es
	e.compDecl(comp, "(Array Ref "+e.s.arrSort(es)+")")
	return comp
}

func (e *Exec) derefComp(t types.Type) string {
	es := e.s.sortOf(t)
	comp := "D|" + es
	e.compDecl(comp, "(Array Ref "+es+")")
	return comp
}

func (e *Exec) mapComps(m *types.Map) (dom, val string) {
	ks, vs := e.s.sortOf(m.Key()), e.s.sortOf(m.Elem())
	dom = "MD|" + ks + "|" + vs
	val = "MV|" + ks + "|" + vs
	e.compDecl(dom, "(Array Ref (Array "+ks+" Bool))")
	e.compDecl(val, "(Array Ref (Array "+ks+" "+vs+"))")
	return
}

func (e *Exec) globalComp(g *ssa.Global) string {
	comp := "G|" + g.Pkg.Pkg.Path() + "." + g.Name()
	e.compDecl(comp, e.s.sortOf(g.Type().(*types.Pointer).Elem()))
	return comp
}

// zero value of a type
func (e *Exec) zero(t types.Type) string {
	if isTimeType(t) {
		return bvLitInt(0, 64)
	}
	switch u := t.Underlying().(type) {
	case *types.Basic:
		switch {
		case u.Info()&types.IsBoolean != 0:
			return "false"
		case u.Info()&types.IsInteger != 0:
			if e.s.isMath(t) {
				return "0"
			}
			return bvLitInt(0, intWidth(u))
		case u.Info()&types.IsString != 0:
			return `""`
		case u.Kind() == types.Float64:
			return "(_ +zero 11 53)"
		case u.Kind() == types.Float32:
			return "(_ +zero 8 24)"
		}
		return "null"
	case *types.Pointer, *types.Map, *types.Chan, *types.Signature:
		return "null"
	case *types.Slice:
		return "(mk_slice null " + e.s.ixLit(0) + " " + e.s.ixLit(0) + " " + e.s.ixLit(0) + ")"
	case *types.Interface:
		return "(mk_iface 0 null)"
	case *types.Array:
		return fmt.Sprintf("((as const %s) %s)", e.s.sortOf(t), e.zero(u.Elem()))
	case *types.Struct:
		si := e.s.structOf(t)
		if len(si.fields) == 0 {
			return "mk_" + si.name
		}
		var b strings.Builder
		b.WriteString("(mk_" + si.name)
		for i := 0; i < u.NumFields(); i++ {
			b.WriteString(" " + e.zero(u.Field(i).Type()))
		}
		b.WriteString(")")
		return b.String()
	}
	return "null"
}

// objComps lists the heap components that hold an object of type t (one level).
func (e *Exec) objComps(t types.Type) []string {
	switch u := t.Underlying().(type) {
	case *types.Struct:
		if isTimeType(t) {
			return []string{e.derefComp(t)}
		}
		var out []string
		for i := 0; i < u.NumFields(); i++ {
			c, _ := e.fieldComp(t, i)
			out = append(out, c)
		}
		return out
	case *types.Array:
		return []string{e.elemComp(u.Elem())}
	default:
		return []string{e.derefComp(t)}
	}
}

// loadObj reads the whole object of type t at ref.
func (e *Exec) loadObj(h *Heap, ref string, t types.Type) string {
	switch u := t.Underlying().(type) {
	case *types.Struct:
		if isTimeType(t) {
			return sel(e.hget(h, e.derefComp(t)), ref)
		}
		si := e.s.structOf(t)
		if u.NumFields() == 0 {
			return "mk_" + si.name
		}
		var b strings.Builder
		b.WriteString("(mk_" + si.name)
		for i := 0; i < u.NumFields(); i++ {
			c, _ := e.fieldComp(t, i)
			b.WriteString(" " + sel(e.hget(h, c), ref))
		}
		b.WriteString(")")
		return b.String()
	case *types.Array:
		return sel(e.hget(h, e.elemComp(u.Elem())), ref)
	default:
		return sel(e.hget(h, e.derefComp(t)), ref)
	}
}

func (e *Exec) storeObj(h *Heap, ref string, t types.Type, v string) {
	switch u := t.Underlying().(type) {
	case *types.Struct:
		if isTimeType(t) {
			c := e.derefComp(t)
			e.noteWrite(c, ref)
			h.m[c] = store(e.hget(h, c), ref, v)
			return
		}
		si := e.s.structOf(t)
		for i := 0; i < u.NumFields(); i++ {
			c, _ := e.fieldComp(t, i)
			e.noteWrite(c, ref)
			h.m[c] = store(e.hget(h, c), ref, fieldOf(si, i, v))
		}
	case *types.Array:
		c := e.elemComp(u.Elem())
		e.noteWrite(c, ref)
		h.m[c] = store(e.hget(h, c), ref, v)
	default:
		c := e.derefComp(t)
		e.noteWrite(c, ref)
		h.m[c] = store(e.hget(h, c), ref, v)
	}
}

// fieldOf selects field i of a struct term, simplifying constructor applications.
func fieldOf(si *structInfo, i int, v string) string {
	if strings.HasPrefix(v, "(mk_"+si.name+" ") {
		parts := splitSexp(v[1 : len(v)-1])
		if len(parts) == len(si.fields)+1 {
			return parts[i+1]
		}
	}
	return "(" + si.fields[i] + " " + v + ")"
}

func (e *Exec) load(h *Heap, a *Addr) string {
	if a.Comp == "" {
		return e.loadObj(h, a.Ref, a.Typ)
	}
	var v string
	if strings.HasPrefix(a.Comp, "G|") {
		v = e.hget(h, a.Comp)
	} else {
		v = sel(e.hget(h, a.Comp), a.Ref)
	}
	for _, p := range a.Path {
		if p.acc != "" {
			v = fieldOf(p.si, p.fidx, v)
		} else {
			v = sel(v, p.idx)
		}
	}
	return v
}

func updatePath(cur string, path []pathElem, v string) string {
	if len(path) == 0 {
		return v
	}
	p := path[0]
	if p.acc != "" {
		// rebuild struct with field replaced
		var b strings.Builder
		b.WriteString("(mk_" + p.si.name)
		for i := range p.si.fields {
			if i == p.fidx {
				b.WriteString(" " + updatePath(fieldOf(p.si, i, cur), path[1:], v))
			} else {
				b.WriteString(" " + fieldOf(p.si, i, cur))
			}
		}
		b.WriteString(")")
		return b.String()
	}
	return store(cur, p.idx, updatePath(sel(cur, p.idx), path[1:], v))
}

func (e *Exec) storeAt(h *Heap, a *Addr, v string) {
	if a.Comp == "" {
		e.storeObj(h, a.Ref, a.Typ, v)
		return
	}
	if strings.HasPrefix(a.Comp, "G|") {
		cur := e.hget(h, a.Comp)
		h.m[a.Comp] = e.nameIfBig("g", e.compSort[a.Comp], updatePath(cur, a.Path, v))
		return
	}
	e.noteWrite(a.Comp, a.Ref)
	arr := e.hget(h, a.Comp)
	cur := sel(arr, a.Ref)
	nv := updatePath(cur, a.Path, v)
	h.m[a.Comp] = e.nameIfBig("h", e.compSort[a.Comp], store(arr, a.Ref, nv))
}

func (e *Exec) nameIfBig(prefix, sort, term string) string {
	if e.pure > 0 || len(term) < 200 {
		return term
	}
	return e.s.define(prefix, sort, term)
}

// addrOf gives the structural address of a pointer value.
func (e *Exec) addrOf(v Val) *Addr {
	if v.A != nil {
		return v.A
	}
	pt, ok := v.Typ.Underlying().(*types.Pointer)
	if !ok {
		panic("addrOf non-pointer " + v.Typ.String())
	}
	return &Addr{Ref: v.T, Typ: pt.Elem()}
}

// refTerm gives a Ref term for an address (interior pointers through an uninterpreted function).
func (e *Exec) refTerm(a *Addr) string {
	if a.Comp == "" {
		return a.Ref
	}
	name := "iptr_" + sanitize(a.Comp)
	args := []string{a.Ref}
	sorts := []string{"Ref"}
	for _, p := range a.Path {
		if p.acc != "" {
			name += "_" + p.acc
		} else {
			name += "_ix"
			args = append(args, p.idx)
			sorts = append(sorts, e.s.ixSort())
		}
	}
	if strings.HasPrefix(a.Comp, "G|") {
		args = nil
		sorts = nil
		if len(a.Path) > 0 {
			for _, p := range a.Path {
				if p.acc == "" {
					args = append(args, p.idx)
					sorts = append(sorts, e.s.ixSort())
				}
			}
		}
		if len(args) == 0 {
			return e.s.declConst(name, "Ref")
		}
	}
	e.s.declFun(name, sorts, "Ref")
	return "(" + name + " " + strings.Join(args, " ") + ")"
}

// ---------------------------------------------------------------- values

func (e *Exec) constVal(c *ssa.Const) Val {
	t := c.Type()
	v := Val{Typ: t}
	if isTimeType(t) {
		v.T = bvLitInt(0, 64)
		return v
	}
	switch u := t.Underlying().(type) {
	case *types.Basic:
		switch {
		case u.Info()&types.IsBoolean != 0:
			if c.Value != nil && constant.BoolVal(c.Value) {
				v.T = "true"
			} else {
				v.T = "false"
			}
		case u.Info()&types.IsInteger != 0:
			b := constToBig(c.Value)
			v.T = bvLit(b, intWidth(u))
			if b.Sign() < 0 {
				v.I = "(- " + new(big.Int).Neg(b).String() + ")"
			} else {
				v.I = b.String()
			}
			if e.s.isMath(t) {
				v.T = v.I
			}
		case u.Info()&types.IsString != 0:
			sv := ""
			if c.Value != nil {
				sv = constant.StringVal(c.Value)
			}
			v.T = smtStringLit(sv)
		case u.Info()&types.IsFloat != 0:
			f := 0.0
			if c.Value != nil {
				f, _ = constant.Float64Val(c.Value)
			}
			v.T = floatLit(f)
		default:
			v.T = e.zero(t)
		}
	default:
		v.T = e.zero(t)
	}
	return v
}

func floatLit(f float64) string {
	// exact via rational
	r := new(big.Rat)
	r.SetFloat64(f)
	if f == 0 {
		return "(_ +zero 11 53)"
	}
	sign := ""
	if r.Sign() < 0 {
		sign = "-"
		r.Neg(r)
	}
	t := fmt.Sprintf("((_ to_fp 11 53) RNE (/ %s.0 %s.0))", r.Num().String(), r.Denom().String())
	if sign == "-" {
		return "(fp.neg " + t + ")"
	}
	return t
}

func (e *Exec) freshVal(prefix string, t types.Type) Val {
	if tup, ok := t.(*types.Tuple); ok {
		v := Val{Typ: t}
		for i := 0; i < tup.Len(); i++ {
			v.Tup = append(v.Tup, e.freshVal(fmt.Sprintf("%s_%d", prefix, i), tup.At(i).Type()))
		}
		return v
	}
	v := Val{T: e.s.freshConst(prefix, e.s.sortOf(t)), Typ: t}
	e.wf(v)
	if !strings.HasPrefix(prefix, "phi_") && !strings.HasPrefix(prefix, "dphi") {
		e.notPrivate(v)
	}
	e.wfFields(v, !strings.HasPrefix(prefix, "phi_") && !strings.HasPrefix(prefix, "dphi"), 0)
	return v
}

// wfFields: the same well-formedness and not-private facts for the slices, strings and references held
// in the fields of a struct passed or loaded by value (net.IPNet{IP, Mask}, asn1.BitString{Bytes, ..}).
func (e *Exec) wfFields(v Val, np bool, depth int) {
	if v.Typ == nil || depth > 2 {
		return
	}
	st, ok := v.Typ.Underlying().(*types.Struct)
	if !ok || !strings.HasPrefix(e.s.sortOf(v.Typ), "S_") {
		return // not a struct, or a struct with a dedicated sort (time.Time is a bit-vector of nanoseconds)
	}
	si := e.s.structOf(v.Typ)
	if si.name != e.s.sortOf(v.Typ) {
		return
	}
	for i := 0; i < st.NumFields(); i++ {
		ft := st.Field(i).Type()
		switch ft.Underlying().(type) {
		case *types.Slice, *types.Struct:
		case *types.Pointer, *types.Interface, *types.Map:
			if !np {
				continue
			}
		default:
			continue
		}
		fv := Val{T: fieldOf(si, i, v.T), Typ: ft}
		if _, isStruct := ft.Underlying().(*types.Struct); isStruct {
			e.wfFields(fv, np, depth+1)
			continue
		}
		if _, isSlice := ft.Underlying().(*types.Slice); isSlice {
			e.wf(fv)
		}
		if np {
			e.notPrivate(fv)
		}
	}
}

// wf asserts the well-formedness facts of a freshly introduced value.
func (e *Exec) wf(v Val) {
	if v.Typ == nil {
		return
	}
	if n, ok := v.Typ.(*types.Named); ok && n.Obj().Pkg() != nil && e.specDepth == 0 && e.pure == 0 {
		if fs := e.eng.specs["typeinv:"+n.Obj().Pkg().Path()+"."+n.Obj().Name()]; fs != nil {
			for _, c := range fs.Clauses {
				e.s.assert(e.evalSpec(e.eng.ld.specFunc(fs, c), []Val{v}, e.curHeap(), nil))
				e.eng.assumes["type invariant of "+n.Obj().Pkg().Path()+"."+n.Obj().Name()+" assumed: "+c.Text] = true
			}
		}
	}
	switch u := v.Typ.Underlying().(type) {
	case *types.Basic:
		if u.Info()&types.IsString != 0 && !e.s.opaque {
			e.s.assert("(str.in_re " + v.T + " (re.* (re.range \"\\u{0}\" \"\\u{ff}\")))")
			if e.s.mathInt {
				e.s.assert("(< (str.len " + v.T + ") 4611686018427387904)")
			}
		}
		if e.s.isMath(v.Typ) {
			e.s.assert("(and (<= (- 9223372036854775808) " + v.T + ") (<= " + v.T + " 9223372036854775807))")
		}
	case *types.Slice:
		z := e.s.ixLit(0)
		ln, cp, of := "(sl_len "+v.T+")", "(sl_cap "+v.T+")", "(sl_off "+v.T+")"
		e.s.assert(and(e.s.ixLe(z, ln), e.s.ixLe(ln, cp), e.s.ixLe(z, of), implies(eq("(sl_base "+v.T+")", "null"), eq(ln, z))))
		if e.s.mathInt {
			e.s.assert(and(e.s.ixLe(cp, "4611686018427387904"), e.s.ixLe(of, "4611686018427387904")))
		}
	}
}

func (e *Exec) intView(v Val) string {
	if v.I != "" {
		return v.I
	}
	if e.s.isMath(v.Typ) {
		return v.T
	}
	if isUnsigned(v.Typ) {
		return "(bv2nat " + v.T + ")"
	}
	// signed: two's complement
	w := 64
	if b, ok := v.Typ.Underlying().(*types.Basic); ok {
		w = intWidth(b)
	}
	half := new(big.Int).Lsh(big.NewInt(1), uint(w-1))
	full := new(big.Int).Lsh(big.NewInt(1), uint(w))
	_ = half
	return fmt.Sprintf("(ite (bvslt %s %s) (- (bv2nat %s) %s) (bv2nat %s))", v.T, bvLitInt(0, w), v.T, full.String(), v.T)
}

// ---------------------------------------------------------------- function execution

func (e *Exec) newFrame(fn *ssa.Function, path string) *frame {
	return &frame{fn: fn, vals: map[ssa.Value]Val{}, guard: map[*ssa.BasicBlock]string{}, heapOut: map[*ssa.BasicBlock]*Heap{}, gOut: map[*ssa.BasicBlock]string{}, path: path}
}

func (e *Exec) val(f *frame, v ssa.Value) Val {
	switch x := v.(type) {
	case *ssa.Const:
		return e.constVal(x)
	case *ssa.Global:
		comp := e.globalComp(x)
		return Val{T: e.refTerm(&Addr{Comp: comp}), A: &Addr{Comp: comp, Typ: x.Type().(*types.Pointer).Elem()}, Typ: x.Type()}
	case *ssa.Function:
		return Val{T: e.s.declConst("fn_"+sanitize(x.String()), "Ref"), Fn: x, Typ: x.Type()}
	case *ssa.Builtin:
		return Val{T: "null", Typ: x.Type()}
	}
	if r, ok := f.vals[v]; ok {
		return r
	}
	panic(fmt.Sprintf("value %s (%T) not defined in %s", v.Name(), v, f.fn))
}

type loopInfo struct {
	header *ssa.BasicBlock
	blocks map[*ssa.BasicBlock]bool
	ord    int
}

func findLoops(fn *ssa.Function) map[*ssa.BasicBlock]*loopInfo {
	loops := map[*ssa.BasicBlock]*loopInfo{}
	for _, b := range fn.Blocks {
		for _, s := range b.Succs {
			if s.Dominates(b) {
				li := loops[s]
				if li == nil {
					li = &loopInfo{header: s, blocks: map[*ssa.BasicBlock]bool{s: true}}
					loops[s] = li
				}
				// natural loop of back edge b->s
				var stack []*ssa.BasicBlock
				if !li.blocks[b] {
					li.blocks[b] = true
					stack = append(stack, b)
				}
				for len(stack) > 0 {
					x := stack[len(stack)-1]
					stack = stack[:len(stack)-1]
					for _, p := range x.Preds {
						if !li.blocks[p] {
							li.blocks[p] = true
							stack = append(stack, p)
						}
					}
				}
			}
		}
	}
	var hs []*ssa.BasicBlock
	for h := range loops {
		hs = append(hs, h)
	}
	sort.Slice(hs, func(i, j int) bool { return hs[i].Index < hs[j].Index })
	for i, h := range hs {
		loops[h].ord = i + 1
	}
	return loops
}

// topoOrder orders blocks ignoring back edges.
func topoOrder(fn *ssa.Function) []*ssa.BasicBlock {
	seen := map[*ssa.BasicBlock]bool{}
	var post []*ssa.BasicBlock
	var dfs func(b *ssa.BasicBlock)
	dfs = func(b *ssa.BasicBlock) {
		seen[b] = true
		for _, s := range b.Succs {
			if !seen[s] && !s.Dominates(b) {
				dfs(s)
			}
		}
		post = append(post, b)
	}
	if len(fn.Blocks) > 0 {
		dfs(fn.Blocks[0])
	}
	for i, j := 0, len(post)-1; i < j; i, j = i+1, j-1 {
		post[i], post[j] = post[j], post[i]
	}
	return post
}

func edgeCond(from, to *ssa.BasicBlock, f *frame, e *Exec) string {
	last := from.Instrs[len(from.Instrs)-1]
	if iff, ok := last.(*ssa.If); ok {
		c := e.val(f, iff.Cond).T
		if from.Succs[0] == to && from.Succs[1] == to {
			return "true"
		}
		if from.Succs[0] == to {
			return c
		}
		return not(c)
	}
	return "true"
}

// run executes fn from the given state; returns the merged return state.
func (e *Exec) run(f *frame, args []Val, h *Heap, guard string) (results []Val, hout *Heap, gout string) {
	fn := f.fn
	if len(fn.Blocks) == 0 {
		panic("no body: " + fn.String())
	}
	for i, p := range fn.Params {
		a := args[i]
		a.Typ = p.Type()
		f.vals[p] = a
	}
	f.params = args
	order := topoOrder(fn)
	loops := findLoops(fn)
	e.runBlocks(f, order, loops, nil, h, guard)
	// merge returns
	if len(f.rets) == 0 {
		return nil, h, "false"
	}
	var gs []string
	var hs []*Heap
	for _, r := range f.rets {
		gs = append(gs, r.guard)
		hs = append(hs, r.heap)
	}
	hout = e.mergeHeaps(hs, gs)
	gout = e.nameBool("ret", or(gs...))
	nres := fn.Signature.Results().Len()
	for i := 0; i < nres; i++ {
		var vs []Val
		for _, r := range f.rets {
			vs = append(vs, r.vals[i])
		}
		results = append(results, e.mergeVals(vs, gs, fn.Signature.Results().At(i).Type()))
	}
	return
}

func (e *Exec) nameBool(prefix, t string) string {
	if e.pure > 0 {
		return t
	}
	return e.s.define(prefix, "Bool", t)
}

func (e *Exec) mergeVals(vs []Val, gs []string, t types.Type) Val {
	if len(vs) == 1 {
		return vs[0]
	}
	if _, ok := t.(*types.Tuple); ok {
		out := Val{Typ: t}
		for i := range vs[0].Tup {
			var sub []Val
			for _, v := range vs {
				sub = append(sub, v.Tup[i])
			}
			out.Tup = append(out.Tup, e.mergeVals(sub, gs, t.(*types.Tuple).At(i).Type()))
		}
		return out
	}
	out := Val{Typ: t}
	term := vs[len(vs)-1].T
	allI := vs[len(vs)-1].I != ""
	it := vs[len(vs)-1].I
	for i := len(vs) - 2; i >= 0; i-- {
		term = ite(gs[i], vs[i].T, term)
		if vs[i].I == "" {
			allI = false
		}
		if allI {
			it = ite(gs[i], vs[i].I, it)
		}
	}
	out.T = term
	if allI {
		out.I = it
	}
	same := true
	for _, v := range vs {
		out.Allocs = append(out.Allocs, v.Allocs...)
		if v.T != vs[0].T {
			same = false
		}
	}
	if same {
		out.A = vs[0].A
		out.Clo = vs[0].Clo
		out.Fn = vs[0].Fn
		out.Dyn = vs[0].Dyn
		out.DynT = vs[0].DynT
		out.I = vs[0].I
	} else if e.pure == 0 && len(term) > 60 {
		out.T = e.s.define("m", e.s.sortOf(t), term)
	}
	return out
}

func (e *Exec) mergeHeaps(hs []*Heap, gs []string) *Heap {
	if len(hs) == 1 {
		return hs[0].clone()
	}
	out := &Heap{m: map[string]string{}, epoch: hs[0].epoch}
	sameEpoch := true
	for _, h := range hs {
		if h.epoch != out.epoch {
			sameEpoch = false
		}
	}
	keys := map[string]bool{}
	for _, h := range hs {
		for k := range h.m {
			keys[k] = true
		}
	}
	if !sameEpoch {
		e.allocN++
		out.epoch = 1000 + e.allocN
	}
	var ks []string
	for k := range keys {
		ks = append(ks, k)
	}
	sort.Strings(ks)
	for _, k := range ks {
		term := e.hget(hs[len(hs)-1], k)
		same := true
		for i := len(hs) - 2; i >= 0; i-- {
			t := e.hget(hs[i], k)
			if t != term {
				same = false
			}
			term = ite(gs[i], t, term)
		}
		if same {
			out.m[k] = e.hget(hs[0], k)
		} else if e.pure > 0 {
			out.m[k] = term
		} else {
			out.m[k] = e.s.define("hm", e.compSort[k], term)
		}
	}
	return out
}

// runBlocks processes the blocks of `order` restricted to `within` (nil = all).
func (e *Exec) runBlocks(f *frame, order []*ssa.BasicBlock, loops map[*ssa.BasicBlock]*loopInfo, within map[*ssa.BasicBlock]bool, h0 *Heap, g0 string) {
	for _, b := range order {
		if within != nil && !within[b] {
			continue
		}
		if _, done := f.gOut[b]; done && within == nil {
			continue
		}
		var h *Heap
		var g string
		isEntry := b == f.fn.Blocks[0]
		li := loops[b]
		if isEntry {
			h, g = h0.clone(), g0
		} else {
			var gs []string
			var hs []*Heap
			var preds []*ssa.BasicBlock
			for _, p := range b.Preds {
				if b.Dominates(p) {
					continue // back edge
				}
				pg, ok := f.gOut[p]
				if !ok || pg == "false" {
					continue
				}
				c := and(pg, edgeCond(p, b, f, e))
				if c == "false" {
					continue
				}
				gs = append(gs, c)
				hs = append(hs, f.heapOut[p])
				preds = append(preds, p)
			}
			if len(gs) == 0 {
				f.gOut[b] = "false"
				f.guard[b] = "false"
				continue
			}
			g = e.nameBool("g", or(gs...))
			h = e.mergeHeaps(hs, gs)
			// phis
			for _, in := range b.Instrs {
				phi, ok := in.(*ssa.Phi)
				if !ok {
					break
				}
				var vs []Val
				for _, p := range preds {
					for pi, pp := range b.Preds {
						if pp == p {
							vs = append(vs, e.val(f, phi.Edges[pi]))
							break
						}
					}
				}
				f.vals[phi] = e.mergeVals(vs, gs, phi.Type())
			}
		}
		if li != nil {
			h, g = e.loopHeader(f, li, loops, order, h, g)
		}
		f.guard[b] = g
		e.execBlock(f, b, h, g, loops)
	}
}

func (e *Exec) loopSpec(f *frame, ord int) (invs []*Clause, unroll int) {
	if f.spec == nil || !f.top {
		return nil, 0
	}
	for _, c := range f.spec.Clauses {
		if c.Kind == KInvariant && c.Loop == ord {
			invs = append(invs, c)
		}
	}
	return invs, f.spec.Unroll[ord]
}

// loopHeader: cut the loop at its header.
func (e *Exec) loopHeader(f *frame, li *loopInfo, loops map[*ssa.BasicBlock]*loopInfo, order []*ssa.BasicBlock, h *Heap, g string) (*Heap, string) {
	b := li.header
	invs, _ := e.loopSpec(f, li.ord)
	if f.spec != nil && f.top && e.quiet == 0 {
		for _, c := range f.spec.Clauses {
			if c.Kind != KExhaustive || c.Loop != li.ord || !e.wantClause(c) || e.clauseHit[c] {
				continue
			}
			e.clauseHit[c] = true
			var bad []string
			for blk := range li.blocks {
				if blk == li.header {
					continue
				}
				for _, s := range blk.Succs {
					if !li.blocks[s] {
						bad = append(bad, e.eng.prog.Fset.Position(blk.Instrs[len(blk.Instrs)-1].Pos()).String())
					}
				}
				if len(blk.Succs) == 0 {
					bad = append(bad, e.eng.prog.Fset.Position(blk.Instrs[len(blk.Instrs)-1].Pos()).String())
				}
			}
			sort.Strings(bad)
			o := &Obligation{Name: e.funcName() + "#" + labelOr(c, fmt.Sprintf("loop%d.exhaustive", li.ord)), Func: e.funcName(), Kind: "structural", Label: c.Label, Tags: c.Tags,
				Pos: fmt.Sprintf("%s:%d", c.File, c.Line), Structural: true, StructOK: len(bad) == 0, Guard: "true",
				Goal: fmt.Sprintf("loop %d of %s is left only from its header (every element of the range is visited)", li.ord, f.fn.Name())}
			if len(bad) > 0 {
				o.StructMsg = "the loop body is left early at " + strings.Join(bad, ", ")
			}
			e.obls = append(e.obls, o)
		}
	}
	var phis []*ssa.Phi
	for _, in := range b.Instrs {
		if phi, ok := in.(*ssa.Phi); ok {
			phis = append(phis, phi)
		} else {
			break
		}
	}
	entryVals := map[*ssa.Phi]Val{}
	for _, p := range phis {
		entryVals[p] = f.vals[p]
	}
	// establishment
	for _, c := range invs {
		if !e.wantClause(c) {
			continue
		}
		t := e.evalInvariant(f, c, li, h, nil)
		e.addObligation(f, "inv-entry", c, fmt.Sprintf("loop%d.%s.entry", li.ord, labelOr(c, "inv")), g, t, b.Instrs[0].Pos())
	}
	auto := e.autoInvariants(f, li, phis, entryVals)
	// discovery pass: which components change in the body?
	modified, full := e.discoverLoopMods(f, li, loops, order, h, g, phis)
	bodyMaxAlloc := e.lastDiscoverAlloc
	// havoc
	h2 := h.clone()
	if full {
		e.noReassert = true // the filtered re-assertion below decides which private objects keep their content
		h2 = e.havocAll(h2, "loop")
		e.noReassert = false
	} else {
		for _, c := range modified {
			h2.m[c] = e.s.freshConst("lh_"+c, e.compSort[c])
		}
	}
	for _, p := range phis {
		nv := e.freshVal("phi_"+p.Comment, p.Type())
		// keep structural info only if loop-invariant (not tracked) -> none
		f.vals[p] = nv
		// a loop-carried reference is an object that existed before, or one allocated no later than
		// the end of the loop body: never an object this function allocates after the loop
		var base string
		switch e.s.sortOf(p.Type()) {
		case "Ref":
			base = nv.T
		case "Slice":
			base = "(sl_base " + nv.T + ")"
		case "Iface":
			base = "(if_ref " + nv.T + ")"
		}
		if base != "" {
			// ... and, if it is an object allocated by an earlier iteration, it is none of the objects this
			// iteration is about to allocate (which get the same small identifiers again): such objects live in
			// an identifier range of their own
			_ = bodyMaxAlloc
			e.s.assert(fmt.Sprintf("(or (>= %s (- %d)) (<= %s (- 1000000)))", base, e.allocN, base))
		}
	}
	e.reassertPrivateAtLoopHead(h, h2, e.lastDiscoverWrites)
	for _, c := range invs {
		t := e.evalInvariant(f, c, li, h2, nil)
		e.s.assert(implies(g, t))
	}
	for _, a := range auto {
		e.s.assert(implies(g, a.at(f, e, nil)))
	}
	// remember what to check at back edges
	if f.quantV == nil {
		f.quantV = map[ssa.Value]Val{}
	}
	e.loopCtx = append(e.loopCtx, &loopCtx{li: li, invs: invs, auto: auto, phis: phis, frame: f})
	return h2, g
}

type loopCtx struct {
	li    *loopInfo
	invs  []*Clause
	auto  []autoInv
	phis  []*ssa.Phi
	frame *frame
}

type autoInv struct {
	phi  *ssa.Phi
	init string
	desc string
}

func (a autoInv) at(f *frame, e *Exec, over map[*ssa.Phi]Val) string {
	v := f.vals[a.phi]
	if over != nil {
		if o, ok := over[a.phi]; ok {
			v = o
		}
	}
	return and(e.s.ixLe(e.s.ixLit(-1), v.T), e.s.ixLt(v.T, a.init))
}

// autoInvariants: the index variable go/ssa generates for a range loop over a slice, array or
// string ("rangeindex": starts at -1, is incremented by one while it stays below the length, which
// is evaluated once) satisfies -1 <= idx < len. This is a fact about compiler-generated code and is
// assumed, not checked; hand-written loops get no automatic invariant.
func (e *Exec) autoInvariants(f *frame, li *loopInfo, phis []*ssa.Phi, entry map[*ssa.Phi]Val) []autoInv {
	var out []autoInv
	for _, p := range phis {
		if p.Comment != "rangeindex" {
			continue
		}
		var next *ssa.BinOp
		for _, in := range li.header.Instrs {
			if bo, ok := in.(*ssa.BinOp); ok && bo.Op == token.ADD && bo.X == ssa.Value(p) {
				next = bo
			}
		}
		if next == nil {
			continue
		}
		for _, in := range li.header.Instrs {
			if bo, ok := in.(*ssa.BinOp); ok && bo.Op == token.LSS && bo.X == ssa.Value(next) {
				if _, defined := f.vals[bo.Y]; defined || isConst(bo.Y) {
					out = append(out, autoInv{phi: p, init: e.val(f, bo.Y).T, desc: p.Comment})
				}
			}
		}
	}
	return out
}

func isConst(v ssa.Value) bool { _, ok := v.(*ssa.Const); return ok }

func labelOr(c *Clause, d string) string {
	if c.Label != "" {
		return c.Label
	}
	return d
}

func (e *Exec) discoverLoopMods(f *frame, li *loopInfo, loops map[*ssa.BasicBlock]*loopInfo, order []*ssa.BasicBlock, h *Heap, g string, phis []*ssa.Phi) (mods []string, full bool) {
	mark := e.s.mark()
	e.quiet++
	savedVals := map[ssa.Value]Val{}
	for k, v := range f.vals {
		savedVals[k] = v
	}
	savedG, savedH, savedGuard := copyMapS(f.gOut), copyMapH(f.heapOut), copyMapS(f.guard)
	savedRets := len(f.rets)
	savedDef := len(f.defers)
	savedPriv := append([]*privRef{}, e.priv...)
	savedLoopCtx := len(e.loopCtx)
	savedAlloc := e.allocN
	savedAll := append([]string{}, e.allAllocs...)
	savedOrd := map[string]int{}
	for k, v := range e.callOrd {
		savedOrd[k] = v
	}
	hv := e.havocCount
	for _, p := range phis {
		f.vals[p] = e.freshVal("dphi", p.Type())
	}
	hh := h.clone()
	e.discover = append(e.discover, &discoverRec{li: li, base: hh.clone()})
	rec := e.discover[len(e.discover)-1]
	// execute header + body once
	f.guard[li.header] = g
	e.execBlock(f, li.header, hh, g, loops)
	var rest []*ssa.BasicBlock
	for _, b := range order {
		if li.blocks[b] && b != li.header {
			rest = append(rest, b)
		}
	}
	sub := map[*ssa.BasicBlock]bool{}
	for _, b := range rest {
		sub[b] = true
	}
	e.runBlocks(f, order, loops, sub, nil, "")
	e.discover = e.discover[:len(e.discover)-1]
	e.lastDiscoverWrites = rec.writes
	full = rec.full || e.havocCount != hv
	set := map[string]bool{}
	for _, bh := range rec.backHeaps {
		if bh.epoch != h.epoch {
			full = true
		}
		for k, v := range bh.m {
			if h.m[k] != v {
				// unchanged lazily-declared initial constants are equal by name
				if _, ok := h.m[k]; !ok && v == fmt.Sprintf("H%d_%s", h.epoch, sanitize(k)) {
					continue
				}
				set[k] = true
			}
		}
	}
	for k := range set {
		mods = append(mods, k)
	}
	sort.Strings(mods)
	// restore
	e.quiet--
	e.s.rollback(mark)
	f.vals = savedVals
	f.gOut, f.heapOut, f.guard = savedG, savedH, savedGuard
	f.rets = f.rets[:savedRets]
	f.defers = f.defers[:savedDef]
	e.priv = savedPriv
	e.loopCtx = e.loopCtx[:savedLoopCtx]
	e.lastDiscoverAlloc = e.allocN
	e.allocN = savedAlloc
	e.allAllocs = savedAll
	e.callOrd = savedOrd
	e.havocCount = hv
	// components declared during discovery stay known (sorts only)
	for _, c := range mods {
		if _, ok := e.compSort[c]; !ok {
			panic("lost component sort " + c)
		}
	}
	return mods, full
}

func copyMapS(m map[*ssa.BasicBlock]string) map[*ssa.BasicBlock]string {
	n := map[*ssa.BasicBlock]string{}
	for k, v := range m {
		n[k] = v
	}
	return n
}
func copyMapH(m map[*ssa.BasicBlock]*Heap) map[*ssa.BasicBlock]*Heap {
	n := map[*ssa.BasicBlock]*Heap{}
	for k, v := range m {
		n[k] = v
	}
	return n
}

type discoverRec struct {
	li        *loopInfo
	base      *Heap
	backHeaps []*Heap
	full      bool
	writes    [][2]string // (component, reference term) of every heap write executed in the body
}

// noteWrite records a heap write for the loops whose bodies are being explored (see loop-head havoc).
func (e *Exec) noteWrite(comp, ref string) {
	for i := range e.discover {
		e.discover[i].writes = append(e.discover[i].writes, [2]string{comp, ref})
	}
}

var allocLitRe = regexp.MustCompile(`^\(- \d+\)$`)

// reassertPrivateAtLoopHead: the loop-head havoc forgets the components the body writes; an object this function
// allocated and has not published keeps its content in such a component only if no write of the body can have
// targeted it (every write into the component went to a different, literally known allocation). A loop that
// fills a private buffer must say what the buffer holds in its invariant.
func (e *Exec) reassertPrivateAtLoopHead(old, nw *Heap, writes [][2]string) {
	for _, p := range e.priv {
		for _, c := range p.comps {
			o, n := e.hget(old, c), e.hget(nw, c)
			if o == n {
				continue
			}
			touched := false
			for _, w := range writes {
				if w[0] == c && !(allocLitRe.MatchString(w[1]) && w[1] != p.ref) {
					touched = true
					break
				}
			}
			if !touched {
				e.s.assert(eq(sel(n, p.ref), sel(o, p.ref)))
			}
		}
	}
}

// backEdge is called when execution reaches a back edge u -> header.
func (e *Exec) backEdge(f *frame, from, header *ssa.BasicBlock, h *Heap, g string) {
	// discovery mode?
	for i := len(e.discover) - 1; i >= 0; i-- {
		if e.discover[i].li.header == header {
			e.discover[i].backHeaps = append(e.discover[i].backHeaps, h.clone())
			return
		}
	}
	var lc *loopCtx
	for i := len(e.loopCtx) - 1; i >= 0; i-- {
		if e.loopCtx[i].li.header == header && e.loopCtx[i].frame == f {
			lc = e.loopCtx[i]
			break
		}
	}
	if lc == nil {
		return
	}
	// phi values along this edge
	over := map[*ssa.Phi]Val{}
	for pi, p := range header.Preds {
		if p == from {
			for _, phi := range lc.phis {
				over[phi] = e.val(f, phi.Edges[pi])
			}
		}
	}
	for _, c := range lc.invs {
		if !e.wantClause(c) {
			continue
		}
		t := e.evalInvariant(f, c, lc.li, h, over)
		e.addObligation(f, "inv-preserve", c, fmt.Sprintf("loop%d.%s.preserved@b%d", lc.li.ord, labelOr(c, "inv"), from.Index), g, t, header.Instrs[0].Pos())
	}
}

// evalInvariant evaluates an invariant clause with loop locals bound.
func (e *Exec) evalInvariant(f *frame, c *Clause, li *loopInfo, h *Heap, over map[*ssa.Phi]Val) string {
	sf := e.eng.ld.specFunc(f.spec, c)
	args := append([]Val{}, f.params...)
	for _, l := range c.Locals {
		name := strings.Fields(l)[0]
		v, ok := e.lookupLocal(f, li, name, h, over)
		if !ok && name != "rangeindex" {
			// the variable may have been renamed (a harmless edit): if exactly one variable of the declared type
			// is carried by the loop, it is the one meant
			want := strings.TrimSpace(strings.TrimPrefix(l, name))
			var cands []*ssa.Phi
			for _, in := range li.header.Instrs {
				phi, isPhi := in.(*ssa.Phi)
				if !isPhi {
					break
				}
				if phi.Comment != "" && phi.Comment != "rangeindex" && types.TypeString(phi.Type(), func(p *types.Package) string { return p.Name() }) == want {
					cands = append(cands, phi)
				}
			}
			if len(cands) == 1 {
				ok = true
				if o, has := over[cands[0]]; has && over != nil {
					v = o
				} else {
					v = f.vals[cands[0]]
				}
				e.eng.assumes[fmt.Sprintf("loop local %q of %s (loop %d) not found by name; bound to the only loop-carried %s variable %q", name, f.fn.Name(), li.ord, want, cands[0].Comment)] = true
			}
			if !ok {
				// ... or exactly one variable of that type is defined before the loop (on the dominator chain)
				qual := func(p *types.Package) string {
					if f.fn.Pkg != nil && p == f.fn.Pkg.Pkg {
						return "" // the contract names types of its own package without qualifier
					}
					return p.Name()
				}
				names := map[string]bool{}
				for b := li.header.Idom(); b != nil; b = b.Idom() {
					for _, in := range b.Instrs {
						if d, isRef := in.(*ssa.DebugRef); isRef && d.Object() != nil {
							if vr, isVar := d.Object().(*types.Var); isVar && types.TypeString(vr.Type(), qual) == want {
								names[vr.Name()] = true
							}
						}
					}
				}
				if len(names) == 1 {
					for other := range names {
						if v2, ok2 := e.lookupLocal(f, li, other, h, over); ok2 {
							v, ok = v2, true
							e.eng.assumes[fmt.Sprintf("loop local %q of %s (loop %d) not found by name; bound to the only %s variable defined before the loop, %q", name, f.fn.Name(), li.ord, want, other)] = true
						}
					}
				}
			}
		}
		if !ok {
			// the code no longer has the variable the invariant talks about: the clause is out of date; it is left
			// out (nothing asserted, nothing assumed) and the function is reported like one with a stale field clause
			noteStaleClause(fmt.Sprintf("%s:%d %s#%s names loop local %q, but loop %d of %s has no such variable", c.File, c.Line, f.spec.Key, labelOr(c, "inv"), name, li.ord, f.fn.Name()))
			return "true"
		}
		args = append(args, v)
	}
	return e.evalSpec(sf, args, h, nil)
}

// lookupLocal finds the SSA value of a source variable at a loop header.
func (e *Exec) lookupLocal(f *frame, li *loopInfo, name string, h *Heap, over map[*ssa.Phi]Val) (Val, bool) {
	for _, in := range li.header.Instrs {
		phi, ok := in.(*ssa.Phi)
		if !ok {
			break
		}
		if phi.Comment == name {
			if over != nil {
				if o, ok := over[phi]; ok {
					return o, true
				}
			}
			return f.vals[phi], true
		}
	}
	// a variable that lives in memory (its address is taken, or it is a struct assigned field by field): its
	// cell, read in the current state - the DebugRef at its definition names the initial value only
	var cells []*ssa.Alloc
	for b := li.header.Idom(); b != nil; b = b.Idom() {
		for _, in := range b.Instrs {
			if al, ok := in.(*ssa.Alloc); ok && al.Comment == name {
				cells = append(cells, al)
			}
		}
	}
	if len(cells) == 1 {
		if v, ok := f.vals[cells[0]]; ok {
			a := e.addrOf(v)
			return Val{T: e.load(h, a), Typ: a.Typ}, true
		}
	}
	// a variable defined before the loop: walk the dominator chain upwards from the header; in each block
	// the last mention wins (a DebugRef of the variable, or the phi that merges its definitions)
	var best ssa.Value
	var isAddr bool
	for b := li.header.Idom(); b != nil && best == nil; b = b.Idom() {
		for i := len(b.Instrs) - 1; i >= 0 && best == nil; i-- {
			switch d := b.Instrs[i].(type) {
			case *ssa.DebugRef:
				if obj := d.Object(); obj != nil && obj.Name() == name {
					best = d.X
					isAddr = d.IsAddr
				}
			case *ssa.Phi:
				if d.Comment == name {
					best = d
				}
			}
		}
	}
	if best != nil {
		v := e.val(f, best)
		if isAddr {
			a := e.addrOf(v)
			return Val{T: e.load(h, a), Typ: a.Typ}, true
		}
		return v, true
	}
	for _, p := range f.fn.Params {
		if p.Name() == name {
			return f.vals[p], true
		}
	}
	return Val{}, false
}

func (e *Exec) reassertPrivate(old, nw *Heap) {
	for _, p := range e.priv {
		for _, c := range p.comps {
			o, n := e.hget(old, c), e.hget(nw, c)
			if o != n {
				e.s.assert(eq(sel(n, p.ref), sel(o, p.ref)))
			}
		}
	}
}

// havocAll forgets every non-stable heap component (private objects are preserved).
func (e *Exec) havocAll(h *Heap, why string) *Heap {
	e.havocCount++
	e.havocked[why]++
	for i := range e.discover {
		e.discover[i].full = true
	}
	e.allocN++
	n := &Heap{m: map[string]string{}, epoch: 1000 + e.allocN}
	for k, v := range h.m {
		if e.eng.stable[k] || e.eng.ghostVars[k] {
			n.m[k] = v
		}
	}
	var sk []string
	for k := range e.eng.stable {
		sk = append(sk, k)
	}
	for k := range e.eng.ghostVars {
		sk = append(sk, k)
	}
	sort.Strings(sk)
	for _, k := range sk {
		if _, ok := e.compSort[k]; ok {
			n.m[k] = e.hget(h, k)
		}
	}
	if !e.noReassert {
		e.reassertPrivate(h, n)
	}
	return n
}

// escape marks allocations carried by v as no longer private.
func (e *Exec) escape(v Val) {
	if len(v.Allocs) == 0 {
		return
	}
	// publishing an object publishes every still-private object stored in it (transitively)
	esc := map[string]bool{}
	var add func(a string)
	add = func(a string) {
		if esc[a] {
			return
		}
		esc[a] = true
		for _, h := range e.holds[a] {
			add(h)
		}
	}
	for _, a := range v.Allocs {
		add(a)
	}
	var keep []*privRef
	for _, p := range e.priv {
		if !esc[p.ref] {
			keep = append(keep, p)
		}
	}
	e.priv = keep
}

// noteHeld: a value carrying allocations was stored into the object ref (an allocation of this function).
func (e *Exec) noteHeld(ref string, v Val) {
	if len(v.Allocs) == 0 || !isAllocRef(ref) {
		return
	}
	if e.holds == nil {
		e.holds = map[string][]string{}
	}
	e.holds[ref] = append(e.holds[ref], v.Allocs...)
}

// callResult returns the model value of the k-th (1-based) result-producing call to key.
func (o *Obligation) callResult(model map[string]string, keySuffix string, k, resIdx int) (string, bool) {
	n := 0
	for _, c := range o.CallLog {
		if strings.HasSuffix(c.Key, keySuffix) {
			n++
			if n == k && resIdx < len(c.Results) {
				v, ok := model[c.Results[resIdx]]
				return v, ok
			}
		}
	}
	return "", false
}

func (e *Exec) newAlloc() string {
	e.allocN++
	r := fmt.Sprintf("(- %d)", e.allocN)
	e.allAllocs = append(e.allAllocs, r)
	return r
}

// notPrivate: a reference obtained from the heap or from a callee is an object that existed before
// (non-negative id) or one of this function's allocations that has been published.
func (e *Exec) notPrivate(v Val) {
	if e.pure > 0 || e.specDepth > 0 || v.Typ == nil || v.T == "" || len(v.Allocs) > 0 || v.A != nil {
		return
	}
	var base string
	switch e.s.sortOf(v.Typ) {
	case "Ref":
		base = v.T
	case "Slice":
		base = "(sl_base " + v.T + ")"
	case "Iface":
		base = "(if_ref " + v.T + ")"
	default:
		return
	}
	if isAllocRef(base) || base == "null" {
		return
	}
	alts := []string{"(>= " + base + " 0)"}
	for _, a := range e.allAllocs {
		if !e.isPrivateRef(a) {
			alts = append(alts, eq(base, a))
		}
	}
	e.s.assert(or(alts...))
}

// curHeap: type invariants only speak about the value itself; an empty heap view suffices.
func (e *Exec) curHeap() *Heap {
	if e.preHeap != nil {
		return e.preHeap.clone()
	}
	return &Heap{m: map[string]string{}}
}
