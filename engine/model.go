package main

import (
	"math/big"
	"strconv"
	"strings"
)

// parseModel extracts constant definitions "(define-fun name () Sort value)" from solver output.
func parseModel(out string) map[string]string {
	m := map[string]string{}
	i := strings.Index(out, "(")
	if i < 0 {
		return m
	}
	body := out[i:]
	// strip outer parens / "(model"
	body = strings.TrimSpace(body)
	if strings.HasPrefix(body, "(model") {
		body = "(" + body[6:]
	}
	if len(body) < 2 {
		return m
	}
	inner := body[1:]
	if j := strings.LastIndex(inner, ")"); j >= 0 {
		inner = inner[:j]
	}
	// remove comment lines
	var sb strings.Builder
	for _, l := range strings.Split(inner, "\n") {
		if strings.HasPrefix(strings.TrimSpace(l), ";") {
			continue
		}
		sb.WriteString(l + "\n")
	}
	for _, d := range splitSexp(sb.String()) {
		if !strings.HasPrefix(d, "(define-fun ") {
			continue
		}
		parts := splitSexp(d[1 : len(d)-1])
		if len(parts) != 5 || parts[2] != "()" {
			continue
		}
		m[parts[1]] = parts[4]
	}
	return m
}

// smtStringToBytes decodes an SMT-LIB string literal; characters above 255 are reduced mod 256
// (reported by the caller as an approximation).
func smtStringToBytes(lit string) ([]byte, bool) {
	if len(lit) < 2 || lit[0] != '"' {
		return nil, false
	}
	s := lit[1 : len(lit)-1]
	var out []byte
	exact := true
	for i := 0; i < len(s); i++ {
		c := s[i]
		if c == '"' && i+1 < len(s) && s[i+1] == '"' {
			out = append(out, '"')
			i++
			continue
		}
		if c == '\\' && i+1 < len(s) && s[i+1] == 'u' {
			// \u{h..} or \uhhhh
			if i+2 < len(s) && s[i+2] == '{' {
				j := strings.IndexByte(s[i:], '}')
				if j > 0 {
					v, err := strconv.ParseUint(s[i+3:i+j], 16, 32)
					if err == nil {
						if v > 255 {
							exact = false
						}
						out = append(out, byte(v))
						i += j
						continue
					}
				}
			} else if i+5 < len(s) {
				v, err := strconv.ParseUint(s[i+2:i+6], 16, 32)
				if err == nil {
					if v > 255 {
						exact = false
					}
					out = append(out, byte(v))
					i += 5
					continue
				}
			}
		}
		if c == '\\' && i+1 < len(s) && s[i+1] == 'x' && i+3 < len(s) {
			v, err := strconv.ParseUint(s[i+2:i+4], 16, 8)
			if err == nil {
				out = append(out, byte(v))
				i += 3
				continue
			}
		}
		out = append(out, c)
	}
	return out, exact
}

func smtBVToBig(lit string) (*big.Int, bool) {
	switch {
	case strings.HasPrefix(lit, "#x"):
		v, ok := new(big.Int).SetString(lit[2:], 16)
		return v, ok
	case strings.HasPrefix(lit, "#b"):
		v, ok := new(big.Int).SetString(lit[2:], 2)
		return v, ok
	case strings.HasPrefix(lit, "(_ bv"):
		f := strings.Fields(lit[5:])
		v, ok := new(big.Int).SetString(f[0], 10)
		return v, ok
	}
	return nil, false
}

// parseObserved extracts the values printed by (get-value ...) after the OBSERVE marker.
func parseObserved(out string, names [][2]string) map[string]string {
	m := map[string]string{}
	i := strings.LastIndex(out, "OBSERVE")
	if i < 0 {
		return m
	}
	rest := out[i+len("OBSERVE"):]
	j := strings.Index(rest, "(")
	if j < 0 {
		return m
	}
	rest = strings.TrimSpace(rest[j:])
	if len(rest) < 2 {
		return m
	}
	pairs := splitSexp(rest[1 : len(rest)-1])
	for k, p := range pairs {
		if k >= len(names) || len(p) < 2 {
			break
		}
		parts := splitSexp(p[1 : len(p)-1])
		if len(parts) >= 2 {
			m[names[k][0]] = parts[len(parts)-1]
		}
	}
	return m
}
