package main

import (
	"go/types"
	"sort"
	"strings"
)

// configure resolves package-level declarations of the contract files (stable components, ghost
// variables, guarded components) into heap component names.
func (eng *Engine) configure() {
	// ghost variables: every package-level var declared in a synthetic spec file
	for path := range eng.ld.pkgSpecs {
		sp := eng.ld.ssaPkg(path)
		if sp == nil {
			continue
		}
		for name, m := range sp.Members {
			pos := eng.prog.Fset.Position(m.Pos())
			if strings.Contains(pos.Filename, "zz_verif_spec_gen") {
				if _, ok := m.Type().(*types.Pointer); ok {
					eng.ghostVars["G|"+path+"."+name] = true
				}
			}
		}
	}
	var paths []string
	for p := range eng.ld.pkgSpecs {
		paths = append(paths, p)
	}
	sort.Strings(paths)
	tmp := &Exec{eng: eng, s: newScript(), compSort: map[string]string{}}
	for _, p := range paths {
		ps := eng.ld.pkgSpecs[p]
		for _, st := range ps.Stable {
			if c, ok := eng.ld.compByShort(tmp, st); ok {
				eng.stable[c] = true
			} else {
				panic("stable: unknown component " + st)
			}
		}
		var gcomps []string
		for comp := range ps.Guarded {
			gcomps = append(gcomps, comp)
		}
		sort.Strings(gcomps)
		for _, comp := range gcomps {
			rule := ps.Guarded[comp]
			c, ok := eng.ld.compByShort(tmp, comp)
			if !ok {
				panic("guarded_by: unknown component " + comp)
			}
			mc, ok := eng.ld.compByShort(tmp, rule.Mutex)
			if !ok {
				panic("guarded_by: unknown mutex " + rule.Mutex)
			}
			label := rule.Label
			if label == "" {
				label = "guarded"
			}
			var mapType *types.Map
			if ft := eng.ld.fieldTypeByShort(comp); ft != nil {
				mapType, _ = ft.Underlying().(*types.Map)
			}
			eng.guarded[c] = &guardInfo{comp: c, short: comp, mutexComp: mc, rule: rule, mapType: mapType,
				clause: &Clause{Kind: KRequires, Label: label + "." + comp, Tags: rule.Tags, File: rule.File, Line: rule.Line, Text: "held(" + rule.Mutex + ") at every access of " + comp}}
		}
	}
}

func (eng *Engine) extraAssumptions(prop string) []string { return nil }
