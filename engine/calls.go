package main

import (
	"os"
	"go/constant"
	"regexp"
	"sort"
	"fmt"
	"go/token"
	"go/types"
	"strings"

	"golang.org/x/tools/go/ssa"
)

func (e *Exec) call(f *frame, in ssa.Instruction, cc *ssa.CallCommon, h *Heap, g string) (Val, *Heap, string) {
	var args []Val
	for _, a := range cc.Args {
		args = append(args, e.val(f, a))
	}
	fnv := e.val(f, cc.Value)
	return e.callWith(f, in, cc, fnv, args, h, g)
}

func calleeKeyOf(fn *ssa.Function) (string, string) {
	if fn.Pkg != nil {
		return fn.Pkg.Pkg.Path() + "::" + fn.RelString(fn.Pkg.Pkg), fn.RelString(nil)
	}
	return fn.RelString(nil), fn.RelString(nil)
}

func (eng *Engine) specForFn(fn *ssa.Function) *FuncSpec {
	if o := fn.Origin(); o != nil {
		fn = o
	}
	k1, k2 := calleeKeyOf(fn)
	if s, ok := eng.specs[k1]; ok {
		return s
	}
	if s, ok := eng.specs[k2]; ok {
		return s
	}
	return nil
}

func (e *Exec) callWith(f *frame, in ssa.Instruction, cc *ssa.CallCommon, fnv Val, args []Val, h *Heap, g string) (Val, *Heap, string) {
	if e.topSpec != nil && e.specDepth == 0 && e.pure == 0 && e.quiet == 0 {
		e.atCallAsserts(f, in, cc, fnv, args, h, g)
	}
	res, hout, gout := e.callWith0(f, in, cc, fnv, args, h, g)
	if e.topSpec != nil && e.specDepth == 0 && e.pure == 0 && gout != "false" {
		hout = e.atCallSets(cc, fnv, args, res, hout, gout, h)
	}
	return res, hout, gout
}

// atCallSets: ghost assignments the contract under verification attaches to calls of a given callee.
func (e *Exec) atCallSets(cc *ssa.CallCommon, fnv Val, args []Val, res Val, h *Heap, g string, pre *Heap) *Heap {
	var key string
	for _, c := range e.topSpec.Clauses {
		if c.Kind != KAtCallSet {
			continue
		}
		if key == "" {
			key = "?"
			if cc.IsInvoke() {
				key = "(" + typeKey(cc.Value.Type()) + ")." + cc.Method.Name()
			} else if fn, ok := cc.Value.(*ssa.Function); ok {
				_, key = calleeKeyOf(fn)
			} else if fnv.Clo != nil {
				_, key = calleeKeyOf(fnv.Clo.fn)
			}
		}
		if !matchCallee(key, c.Callee) {
			continue
		}
		e.clauseHit[c] = true
		full := append([]Val{}, e.topFrame.params...)
		if cc.IsInvoke() {
			full = append(full, fnv)
		}
		full = append(full, args...)
		if len(res.Tup) > 0 {
			full = append(full, res.Tup...)
		} else if res.T != "" {
			full = append(full, res)
		}
		pkg := e.eng.ld.ssaPkg(e.topSpec.PkgPath)
		valFn, condFn, varFn := pkg.Func(c.GoName), pkg.Func(c.GoName+"_cond"), pkg.Func(c.GoName+"_var")
		if valFn == nil || len(valFn.Params) != len(full) {
			panic(fmt.Sprintf("%s:%d: atcall sets: parameter list does not match the call of %s (%d values)", c.File, c.Line, key, len(full)-len(e.topFrame.params)))
		}
		h = h.clone()
		a := e.addrOf(e.evalSpecVal(varFn, nil, h))
		cond := e.evalSpec(condFn, full, h, pre) // old(...) in the condition = the state before the call
		val := e.evalSpecVal(valFn, full, h)
		old := e.load(h, a)
		e.storeAt(h, a, e.named("gs", a.Typ, ite(cond, val.T, old)))
	}
	return h
}

func (e *Exec) callWith0(f *frame, in ssa.Instruction, cc *ssa.CallCommon, fnv Val, args []Val, h *Heap, g string) (Val, *Heap, string) {
	resT := cc.Signature().Results()
	var rt types.Type = resT
	if resT.Len() == 1 {
		rt = resT.At(0).Type()
	}
	if cc.IsInvoke() {
		recv := fnv
		if e.specDepth == 0 && e.pure == 0 && e.s.sortOf(cc.Value.Type()) == "Iface" && recv.DynT == nil {
			// a method call on a nil interface value panics: execution continues only for a non-nil receiver
			// (under nopanic this is an obligation)
			nn := "(not (= (if_tag " + recv.T + ") 0))"
			if e.nopanic {
				e.checkCond(f, "nil", nn, &g, in)
			} else {
				g = e.nameBool("g", and(g, nn))
			}
		}
		if recv.Dyn != nil && recv.DynT != nil {
			if m := e.eng.prog.LookupMethod(recv.DynT, cc.Method.Pkg(), cc.Method.Name()); m != nil {
				return e.callStatic(f, in, m, append([]Val{*recv.Dyn}, args...), nil, rt, h, g)
			}
		}
		key := "(" + typeKey(cc.Value.Type()) + ")." + cc.Method.Name()
		if sp, ok := e.eng.specs[key]; ok {
			return e.contractCall(f, in, sp, key, append([]Val{recv}, args...), rt, h, g)
		}
		return e.unknownCall(f, in, key, append([]Val{recv}, args...), rt, h, g)
	}
	switch cv := cc.Value.(type) {
	case *ssa.Builtin:
		return e.builtin(f, in, cv, args, rt, h, g)
	case *ssa.Function:
		if cv.String() == "regexp.MatchString" && len(cc.Args) == 2 {
			// a constant pattern is translated exactly (gore.go); other patterns keep the uninterpreted contract
			if c, ok := cc.Args[0].(*ssa.Const); ok && c.Value != nil {
				if re, ok := tryGoRegexToSMT(constant.StringVal(c.Value)); ok {
					e.eng.assumes["regexp.MatchString with a constant pattern is the exact regular-expression membership (Go RE2 syntax translated to SMT-LIB by the engine)"] = true
					tup := rt.(*types.Tuple)
					m := Val{T: "(str.in_re " + args[1].T + " " + re + ")", Typ: tup.At(0).Type()}
					return Val{Tup: []Val{m, {T: e.zero(tup.At(1).Type()), Typ: tup.At(1).Type()}}, Typ: rt}, h, g
				}
			}
		}
		return e.callStatic(f, in, cv, args, nil, rt, h, g)
	}
	if fnv.Clo != nil {
		return e.callStatic(f, in, fnv.Clo.fn, args, fnv.Clo.bindings, rt, h, g)
	}
	if fnv.Fn != nil {
		return e.callStatic(f, in, fnv.Fn, args, nil, rt, h, g)
	}
	return e.unknownCall(f, in, "dynamic call of "+cc.Value.Type().String(), args, rt, h, g)
}

func (e *Exec) isSpecFn(fn *ssa.Function) bool {
	for fn.Parent() != nil {
		fn = fn.Parent()
	}
	if o := fn.Origin(); o != nil {
		fn = o
	}
	pos := e.eng.prog.Fset.Position(fn.Pos())
	return strings.Contains(pos.Filename, "zz_verif_spec_gen")
}

func isGhostBody(fn *ssa.Function) bool {
	if len(fn.Blocks) != 1 {
		return false
	}
	for _, in := range fn.Blocks[0].Instrs {
		switch in.(type) {
		case *ssa.Panic:
			return true
		case *ssa.MakeInterface, *ssa.DebugRef:
		default:
			return false
		}
	}
	return false
}

func (e *Exec) callStatic(f *frame, in ssa.Instruction, fn *ssa.Function, args []Val, bindings []Val, rt types.Type, h *Heap, g string) (Val, *Heap, string) {
	if e.isSpecFn(fn) && fn.Parent() == nil {
		if isGhostBody(fn) || e.isOpaque(fn) {
			return e.ghostCall(f, in, fn, args, rt, h, g)
		}
		// pure spec function with a body: always inlined
		return e.inline(f, in, fn, args, bindings, rt, h, g)
	}
	if sp := e.eng.specForFn(fn); sp != nil && sp.Inline == "always" && len(fn.Blocks) > 0 && len(e.inlineStk) < 8 {
		// the contract asks for the body to be used at call sites (loops get the default invariant);
		// its ghost assignments still happen at the return
		res, hout, gout := e.inline(f, in, fn, args, bindings, rt, h, g)
		if gout != "false" && hasGhostSet(sp) {
			full := append([]Val{}, args...)
			if len(res.Tup) > 0 {
				full = append(full, res.Tup...)
			} else if res.T != "" {
				full = append(full, res)
			}
			e.applyGhostSets(sp, full, hout, gout)
		}
		return res, hout, gout
	}
	if sp := e.eng.specForFn(fn); sp != nil && sp.Inline != "always" && !sp.Ghost {
		k1, _ := calleeKeyOf(fn)
		if sp.Trusted {
			k1 = sp.Key
		}
		e.curCallee = fn
		return e.contractCall(f, in, sp, k1, args, rt, h, g)
	}
	if e.canInline(fn) {
		return e.inline(f, in, fn, args, bindings, rt, h, g)
	}
	_, k2 := calleeKeyOf(fn)
	if len(fn.Blocks) > 0 && e.inRepoFn(fn) {
		return e.summaryCall(f, in, fn, k2, args, rt, h, g)
	}
	return e.unknownCall(f, in, k2, args, rt, h, g)
}

func (e *Exec) canInline(fn *ssa.Function) bool {
	if len(fn.Blocks) == 0 && fn.Pkg != nil {
		if _, k2 := calleeKeyOf(fn); e.eng.ld.inlineExternal[k2] {
			fn.Pkg.Build()
		}
	}
	if len(fn.Blocks) == 0 {
		return false
	}
	for _, s := range e.inlineStk {
		if s == fn {
			return false
		}
	}
	limit := e.eng.maxInline
	if e.specDepth > 0 {
		limit = 14 // specification code is small and must be expanded
	}
	if len(e.inlineStk) >= limit {
		return false
	}
	root := fn
	for root.Parent() != nil {
		root = root.Parent()
	}
	if root.Pkg != nil && e.eng.ld.inRepo(root.Pkg.Pkg.Path()) {
		if e.isSpecFn(fn) {
			return true
		}
		n := 0
		for _, b := range fn.Blocks {
			for _, in := range b.Instrs {
				if _, ok := in.(*ssa.DebugRef); !ok {
					n++
				}
			}
			for _, s := range b.Succs {
				if s.Dominates(b) && e.specDepth == 0 {
					return false // loops are not inlined: they need an invariant, hence a contract
				}
			}
		}
		if fn.Parent() != nil {
			return n <= 400 // closures of the function under verification
		}
		return n <= e.eng.inlineMax
	}
	_, k2 := calleeKeyOf(fn)
	return e.eng.ld.inlineExternal[k2]
}

func (e *Exec) inline(f *frame, in ssa.Instruction, fn *ssa.Function, args []Val, bindings []Val, rt types.Type, h *Heap, g string) (Val, *Heap, string) {
	nf := e.newFrame(fn, f.path)
	if e.specDepth == 0 {
		e.callOrd["inline:"+fn.Name()]++
		nf.path = fmt.Sprintf("%s%s.%d/", f.path, fn.Name(), e.callOrd["inline:"+fn.Name()])
		_, k2 := calleeKeyOf(fn)
		e.inlined[k2] = true
	}
	for i, fv := range fn.FreeVars {
		if i < len(bindings) {
			b := bindings[i]
			b.Typ = fv.Type()
			nf.vals[fv] = b
		}
	}
	e.inlineStk = append(e.inlineStk, fn)
	res, hout, gout := e.run(nf, args, h, g)
	e.inlineStk = e.inlineStk[:len(e.inlineStk)-1]
	if gout == "false" {
		return e.zeroVal(rt), hout, "false"
	}
	return tupleOf(res, rt), hout, gout
}

func tupleOf(res []Val, rt types.Type) Val {
	if tup, ok := rt.(*types.Tuple); ok {
		if tup.Len() == 0 {
			return Val{Typ: rt}
		}
		return Val{Tup: res, Typ: rt}
	}
	if len(res) == 1 {
		return res[0]
	}
	return Val{Typ: rt}
}

func (e *Exec) zeroVal(rt types.Type) Val {
	if tup, ok := rt.(*types.Tuple); ok {
		v := Val{Typ: rt}
		for i := 0; i < tup.Len(); i++ {
			v.Tup = append(v.Tup, Val{T: e.zero(tup.At(i).Type()), Typ: tup.At(i).Type()})
		}
		return v
	}
	return Val{T: e.zero(rt), Typ: rt}
}

func (e *Exec) resultVal(prefix string, rt types.Type) Val {
	if tup, ok := rt.(*types.Tuple); ok && tup.Len() == 0 {
		return Val{Typ: rt}
	}
	if e.pure > 0 {
		panic("call with unknown result inside a quantifier body: " + prefix)
	}
	return e.freshVal(prefix, rt)
}

// unknownCall: no contract, not inlinable. Result unconstrained; the objects directly
// pointed to by the arguments are havocked; a function-valued argument havocs everything.
func (e *Exec) unknownCall(f *frame, in ssa.Instruction, key string, args []Val, rt types.Type, h *Heap, g string) (Val, *Heap, string) {
	if e.specDepth == 0 {
		e.havocked["call:"+key]++
	}
	full := false
	var cbs []*ssa.Function
	for _, a := range args {
		if a.Typ == nil {
			continue
		}
		if _, ok := a.Typ.Underlying().(*types.Signature); ok {
			// the callee may call the function it is given: its (inferred) effects happen
			switch {
			case a.Clo != nil:
				cbs = append(cbs, a.Clo.fn)
			case a.Fn != nil && len(a.Fn.Blocks) > 0:
				cbs = append(cbs, a.Fn)
			default:
				full = true
			}
		}
		e.escape(a)
	}
	pre := h
	h = h.clone()
	for _, cb := range cbs {
		if ms := e.eng.modSetOf(cb); ms.all {
			full = true
		}
	}
	if full {
		h = e.havocAll(h, "call with function argument: "+key)
	} else {
		for _, cb := range cbs {
			e.applyModSet(e.eng.modSetOf(cb), h)
		}
		for _, a := range args {
			e.havocPointee(h, a, 0)
		}
		if len(cbs) > 0 {
			e.reassertPrivate(pre, h)
		}
	}
	res := e.resultVal("r_"+shortName(key), rt)
	e.logCall(key, res)
	return res, h, g
}

func shortName(k string) string {
	if i := strings.LastIndexAny(k, "./:"); i >= 0 && i+1 < len(k) {
		k = k[i+1:]
	}
	return sanitize(k)
}

// havocPointee forgets the object an argument points to (depth 1).
func (e *Exec) havocPointee(h *Heap, a Val, depth int) {
	if a.Typ == nil {
		return
	}
	switch t := a.Typ.Underlying().(type) {
	case *types.Pointer:
		ad := e.addrOf(a)
		if ad.Comp != "" {
			e.storeAt(h, ad, e.s.freshConst("hv", e.s.sortOf(ad.Typ)))
			return
		}
		if isSyncType(t.Elem()) {
			return
		}
		e.storeObj(h, ad.Ref, ad.Typ, e.s.freshConst("hv", e.s.sortOf(ad.Typ)))
	case *types.Slice:
		comp := e.elemComp(t.Elem())
		base := "(sl_base " + a.T + ")"
		// variadic packs ([]interface{} built at the call site): what the elements point to is reachable too
		if depth == 0 {
			refs := map[string]bool{base: true}
			if a.A != nil {
				refs[a.A.Ref] = true
			}
			for _, al := range a.Allocs {
				refs[al] = true
			}
			var keys []string
			for k := range e.shadow {
				keys = append(keys, k)
			}
			sort.Strings(keys)
			for _, k := range keys {
				if i := strings.Index(k, "|"); i > 0 && refs[k[:i]] {
					sv := e.shadow[k]
					e.escape(sv)
					e.havocPointee(h, sv, 0)
				}
			}
		}
		if !e.pointeesOnly && !isStringType(t.Elem()) {
			h.m[comp] = store(e.hget(h, comp), base, e.s.freshConst("hv", e.s.arrSort(e.s.sortOf(t.Elem()))))
		}
	case *types.Map:
		dc, vc := e.mapComps(t)
		h.m[dc] = store(e.hget(h, dc), a.T, e.s.freshConst("hv", "(Array "+e.s.sortOf(t.Key())+" Bool)"))
		h.m[vc] = store(e.hget(h, vc), a.T, e.s.freshConst("hv", "(Array "+e.s.sortOf(t.Key())+" "+e.s.sortOf(t.Elem())+")"))
	case *types.Interface:
		if a.Dyn != nil && depth == 0 {
			d := *a.Dyn
			d.Typ = a.DynT
			e.havocPointee(h, d, 1)
		}
	}
}

func isSyncType(t types.Type) bool {
	if n, ok := t.(*types.Named); ok && n.Obj().Pkg() != nil {
		return n.Obj().Pkg().Path() == "sync"
	}
	return false
}

// ---------------------------------------------------------------- builtins

func (e *Exec) builtin(f *frame, in ssa.Instruction, b *ssa.Builtin, args []Val, rt types.Type, h *Heap, g string) (Val, *Heap, string) {
	switch b.Name() {
	case "len", "cap":
		a := args[0]
		switch t := a.Typ.Underlying().(type) {
		case *types.Basic:
			i := "(str.len " + a.T + ")"
			if e.s.mathInt {
				return Val{T: i, I: i, Typ: rt}, h, g
			}
			return Val{T: "((_ int2bv 64) " + i + ")", I: i, Typ: rt}, h, g
		case *types.Slice:
			if b.Name() == "cap" {
				return Val{T: "(sl_cap " + a.T + ")", Typ: rt}, h, g
			}
			return Val{T: "(sl_len " + a.T + ")", Typ: rt}, h, g
		case *types.Array:
			return Val{T: e.s.ixLit(t.Len()), I: fmt.Sprint(t.Len()), Typ: rt}, h, g
		case *types.Pointer:
			if at, ok := t.Elem().Underlying().(*types.Array); ok {
				return Val{T: e.s.ixLit(at.Len()), I: fmt.Sprint(at.Len()), Typ: rt}, h, g
			}
		case *types.Map:
			dc, _ := e.mapComps(t)
			fn := "maplen_" + sanitize(e.s.sortOf(t.Key()))
			e.s.declFun(fn, []string{"(Array " + e.s.sortOf(t.Key()) + " Bool)"}, e.s.ixSort())
			v := Val{T: "(" + fn + " " + sel(e.hget(h, dc), a.T) + ")", Typ: rt}
			if e.pure == 0 {
				e.s.assert(e.s.ixLe(e.s.ixLit(0), v.T))
			}
			return v, h, g
		}
	case "append":
		s := args[0]
		st := s.Typ.Underlying().(*types.Slice)
		comp := e.elemComp(st.Elem())
		if len(args) == 1 {
			return s, h, g
		}
		add := args[1]
		// result: a fresh array holding old ++ added (we do not model in-place growth aliasing)
		ref := e.newAlloc()
		es := e.s.sortOf(st.Elem())
		arr := e.s.freshConst("app", e.s.arrSort(es))
		h = h.clone()
		oldArr := sel(e.hget(h, comp), "(sl_base "+s.T+")")
		var addLen string
		if isStringType(add.Typ) {
			addLen = "((_ int2bv 64) (str.len " + add.T + "))"
			if e.s.mathInt {
				addLen = "(str.len " + add.T + ")"
			}
		} else {
			addLen = "(sl_len " + add.T + ")"
			addArr := sel(e.hget(h, comp), "(sl_base "+add.T+")")
			// element-wise facts
			if e.pure == 0 {
				q := e.s.fresh("qi")
				z := e.s.ixLit(0)
				e.s.assert(fmt.Sprintf("(forall ((%s %s)) (=> (and %s %s) (= (select %s %s) (select %s %s))))",
					q, e.s.ixSort(), e.s.ixLe(z, q), e.s.ixLt(q, "(sl_len "+s.T+")"), arr, q, oldArr, e.s.ixAdd("(sl_off "+s.T+")", q)))
				e.s.assert(fmt.Sprintf("(forall ((%s %s)) (=> (and %s %s) (= (select %s %s) (select %s %s))))",
					q, e.s.ixSort(), e.s.ixLe(z, q), e.s.ixLt(q, addLen), arr, e.s.ixAdd("(sl_len "+s.T+")", q), addArr, e.s.ixAdd("(sl_off "+add.T+")", q)))
			}
		}
		h.m[comp] = store(e.hget(h, comp), ref, arr)
		e.priv = append(e.priv, &privRef{ref: ref, comps: []string{comp}})
		nl := e.s.ixAdd("(sl_len "+s.T+")", addLen)
		if e.pure == 0 {
			e.s.assert(e.s.ixLe("(sl_len "+s.T+")", nl))
		}
		out := Val{T: e.named("app", rt, fmt.Sprintf("(mk_slice %s %s %s %s)", ref, e.s.ixLit(0), nl, nl)), Typ: rt, Allocs: append(append([]string{ref}, s.Allocs...), add.Allocs...)}
		return out, h, g
	case "copy":
		d := args[0]
		st := d.Typ.Underlying().(*types.Slice)
		comp := e.elemComp(st.Elem())
		h = h.clone()
		e.noteWrite(comp, "(sl_base "+d.T+")")
		h.m[comp] = store(e.hget(h, comp), "(sl_base "+d.T+")", e.s.freshConst("cp", e.s.arrSort(e.s.sortOf(st.Elem()))))
		return e.resultVal("copy", rt), h, g
	case "delete":
		m, k := args[0], args[1]
		mt := m.Typ.Underlying().(*types.Map)
		dc, _ := e.mapComps(mt)
		e.guardObl(f, m.Guard, h, g, in, true)
		h = h.clone()
		e.noteWrite(dc, m.T)
		h.m[dc] = store(e.hget(h, dc), m.T, store(sel(e.hget(h, dc), m.T), k.T, "false"))
		return Val{Typ: rt}, h, g
	case "panic":
		return Val{Typ: rt}, h, "false"
	case "print", "println", "clear":
		return Val{Typ: rt}, h, g
	case "min", "max":
		if len(args) == 2 && isIntType(args[0].Typ) {
			op := "bvsle"
			if isUnsigned(args[0].Typ) {
				op = "bvule"
			}
			c := "(" + op + " " + args[0].T + " " + args[1].T + ")"
			if b.Name() == "min" {
				return Val{T: ite(c, args[0].T, args[1].T), Typ: rt}, h, g
			}
			return Val{T: ite(c, args[1].T, args[0].T), Typ: rt}, h, g
		}
	}
	e.drop("builtin " + b.Name())
	return e.resultVal("bi_"+b.Name(), rt), h, g
}

// ---------------------------------------------------------------- ghost functions

func (e *Exec) ghostCall(f *frame, in ssa.Instruction, fn *ssa.Function, args []Val, rt types.Type, h *Heap, g string) (Val, *Heap, string) {
	name := fn.Name()
	if o := fn.Origin(); o != nil {
		name = o.Name()
	}
	B := func(t string) (Val, *Heap, string) { return Val{T: t, Typ: rt}, h, g }
	switch name {
	case "implies":
		return B(implies(args[0].T, args[1].T))
	case "iff":
		return B(eq(args[0].T, args[1].T))
	case "forall2", "exists2":
		a := args[0]
		var cfn *ssa.Function
		var binds []Val
		if a.Clo != nil {
			cfn, binds = a.Clo.fn, a.Clo.bindings
		} else if a.Fn != nil {
			cfn = a.Fn
		} else {
			panic("quantifier needs a function literal")
		}
		e.quantN++
		var bvs []Val
		var decl []string
		for _, p := range cfn.Params {
			qn := fmt.Sprintf("q%d_%s", e.quantN, sanitize(p.Name()))
			bvs = append(bvs, Val{T: qn, Typ: p.Type()})
			decl = append(decl, "("+qn+" "+e.s.sortOf(p.Type())+")")
		}
		e.pure++
		nf := e.newFrame(cfn, f.path)
		for i, fv := range cfn.FreeVars {
			b := binds[i]
			b.Typ = fv.Type()
			nf.vals[fv] = b
		}
		e.inlineStk = append(e.inlineStk, cfn)
		res, _, _ := e.run(nf, bvs, h, "true")
		e.inlineStk = e.inlineStk[:len(e.inlineStk)-1]
		e.pure--
		e.quantN--
		q := "forall"
		if name == "exists2" {
			q = "exists"
		}
		return B(fmt.Sprintf("(%s (%s) %s)", q, strings.Join(decl, " "), res[0].T))
	case "forall", "exists", "forallIdx", "existsIdx":
		a := args[0]
		var cfn *ssa.Function
		var binds []Val
		if a.Clo != nil {
			cfn, binds = a.Clo.fn, a.Clo.bindings
		} else if a.Fn != nil {
			cfn = a.Fn
		} else {
			panic("quantifier needs a function literal")
		}
		p := cfn.Params[0]
		e.quantN++
		qn := fmt.Sprintf("q%d_%s", e.quantN, sanitize(p.Name()))
		var bv Val
		var sort string
		if strings.HasSuffix(name, "Idx") {
			sort = "Int"
			bv = Val{T: "((_ int2bv 64) " + qn + ")", I: qn, Typ: p.Type()}
			if e.s.mathInt {
				bv.T = qn
			}
		} else {
			sort = e.s.sortOf(p.Type())
			bv = Val{T: qn, Typ: p.Type()}
		}
		e.pure++
		nf := e.newFrame(cfn, f.path)
		for i, fv := range cfn.FreeVars {
			b := binds[i]
			b.Typ = fv.Type()
			nf.vals[fv] = b
		}
		e.inlineStk = append(e.inlineStk, cfn)
		res, _, _ := e.run(nf, []Val{bv}, h, "true")
		e.inlineStk = e.inlineStk[:len(e.inlineStk)-1]
		e.pure--
		e.quantN--
		q := "forall"
		if strings.HasPrefix(name, "exists") {
			q = "exists"
		}
		return B(fmt.Sprintf("(%s ((%s %s)) %s)", q, qn, sort, res[0].T))
	case "old":
		if len(e.oldStack) == 0 {
			return args[0], h, g
		}
		top := e.oldStack[len(e.oldStack)-1]
		call := in.(*ssa.Call)
		if top == nil {
			// the run in the pre-state: remember the value (old() may sit inside a quantifier body or a
			// spec function called from the clause, whose frames are gone when the run ends)
			if len(e.oldCollect) > 0 {
				e.oldCollect[len(e.oldCollect)-1][call.Call.Args[0]] = args[0]
			}
			return args[0], h, g
		}
		if ov, ok := top[call.Call.Args[0]]; ok {
			return ov, h, g
		}
		switch call.Call.Args[0].(type) {
		case *ssa.Const, *ssa.Parameter, *ssa.FreeVar:
			// constants and parameters are state independent
			return args[0], h, g
		}
		// the run in the pre-state did not pass here (the branch was decided the other way there): the old value
		// is not known - an unconstrained value of the right sort (never the current one)
		return e.freshVal("oldunk", call.Call.Args[0].Type()), h, g
	case "isType":
		ta := fn.TypeArgs()[0]
		v := args[0]
		if v.DynT != nil {
			if types.Identical(v.DynT, ta) {
				return B("true")
			}
			return B("false")
		}
		return B(fmt.Sprintf("(= (if_tag %s) %d)", v.T, e.s.typeID(ta)))
	case "asType":
		ta := fn.TypeArgs()[0]
		v := args[0]
		if v.Dyn != nil && types.Identical(v.DynT, ta) {
			return *v.Dyn, h, g
		}
		return Val{T: e.unboxAs(v.T, ta), Typ: ta}, h, g
	case "strPrefixOf":
		return B("(str.prefixof " + args[0].T + " " + args[1].T + ")")
	case "strSuffixOf":
		return B("(str.suffixof " + args[0].T + " " + args[1].T + ")")
	case "strContains":
		return B("(str.contains " + args[0].T + " " + args[1].T + ")")
	case "strIndexOf":
		i := "(str.indexof " + args[0].T + " " + args[1].T + " 0)"
		return Val{T: "((_ int2bv 64) " + i + ")", I: i, Typ: rt}, h, g
	case "strReplaceAll":
		return B("(str.replace_all " + args[0].T + " " + args[1].T + " " + args[2].T + ")")
	case "strTrimPrefix":
		s, p := args[0].T, args[1].T
		return B(fmt.Sprintf("(ite (str.prefixof %s %s) (str.substr %s (str.len %s) (- (str.len %s) (str.len %s))) %s)", p, s, s, p, s, p, s))
	case "strTrimSuffix":
		s, p := args[0].T, args[1].T
		return B(fmt.Sprintf("(ite (str.suffixof %s %s) (str.substr %s 0 (- (str.len %s) (str.len %s))) %s)", p, s, s, s, p, s))
	case "strInRe":
		// second argument: constant regular expression in SMT-LIB syntax
		c, ok := in.(*ssa.Call).Call.Args[1].(*ssa.Const)
		if !ok {
			panic("strInRe needs a constant SMT-LIB regular expression")
		}
		re := constant.StringVal(c.Value)
		return B("(str.in_re " + args[0].T + " " + re + ")")
	case "strMatchesGoRe":
		// second argument: a constant Go regular expression (regexp.MatchString semantics), translated exactly
		c, ok := in.(*ssa.Call).Call.Args[1].(*ssa.Const)
		if !ok {
			panic("strMatchesGoRe needs a constant regular expression")
		}
		return B("(str.in_re " + args[0].T + " " + goRegexToSMT(constant.StringVal(c.Value)) + ")")
	case "fpFloor":
		return B("(fp.roundToIntegral RTN " + args[0].T + ")")
	case "ult":
		return B("(bvult " + args[0].T + " " + args[1].T + ")")
	case "ule":
		return B("(bvule " + args[0].T + " " + args[1].T + ")")
	case "bytesToStr":
		a := args[0]
		sl := a.Typ.Underlying().(*types.Slice)
		comp := e.elemComp(sl.Elem())
		e.s.declFun("bytes2str", []string{e.s.arrSort(e.s.sortOf(sl.Elem())), e.s.ixSort(), e.s.ixSort()}, e.s.strSort())
		return B(fmt.Sprintf("(bytes2str %s (sl_off %s) (sl_len %s))", sel(e.hget(h, comp), "(sl_base "+a.T+")"), a.T, a.T))
	case "timeNanos", "nanosTime":
		return Val{T: args[0].T, Typ: rt}, h, g
	case "nowNanos":
		if !e.s.declared["ghost_now"] {
			e.s.declConst("ghost_now", bvSort(64))
			// the current time lies between 1970 and 2116 (same range as every time.Time, see time.spec);
			// it is one instant per request: time does not advance while a handler runs
			e.s.decl("(assert (and (bvsge ghost_now #x0000000000000000) (bvslt ghost_now #x4000000000000000)))")
			e.eng.assumes["the clock reads one instant (between 1970 and 2116) for the whole request: time does not advance while a handler runs"] = true
		}
		return Val{T: "ghost_now", Typ: rt}, h, g
	case "held":
		return B(e.heldTerm(h, args[0]))
	case "fresh":
		return B("true")
	case "fmtLiteralAfterFirstVerb":
		// literal text between the first verb (two characters, e.g. %s) and the second verb
		t := args[0].T
		if strings.HasPrefix(t, "\"") && strings.HasSuffix(t, "\"") {
			if b, exact := smtStringToBytes(t); exact {
				s := string(b)
				if i := strings.IndexByte(s, '%'); i >= 0 && i+2 <= len(s) {
					s = s[i+2:]
					if j := strings.IndexByte(s, '%'); j >= 0 {
						s = s[:j]
					}
					return B(smtStringLit(s))
				}
			}
		}
		return B("\"\"")
	case "fmtLiteralPrefix":
		// literal text of a constant format string before its first verb
		t := args[0].T
		if strings.HasPrefix(t, "\"") && strings.HasSuffix(t, "\"") {
			if b, exact := smtStringToBytes(t); exact {
				s := string(b)
				if i := strings.IndexByte(s, '%'); i >= 0 {
					s = s[:i]
				}
				return B(smtStringLit(s))
			}
		}
		return B("\"\"")
	case "refOf":
		v := args[0]
		if v.Dyn != nil {
			v = *v.Dyn
		}
		e.s.declFun("refid", []string{"Ref"}, bvSort(64))
		return B("(refid " + v.T + ")")
	case "modAddr":
		if e.modRec != nil && args[0].Dyn != nil {
			*e.modRec = append(*e.modRec, modTarget{addr: e.addrOf(*args[0].Dyn)})
		}
		return Val{Typ: rt}, h, g
	case "same":
		return B(eq(args[0].T, args[1].T))
	case "hasKey":
		mt := args[0].Typ.Underlying().(*types.Map)
		dc, _ := e.mapComps(mt)
		return B(sel(sel(e.hget(h, dc), args[0].T), args[1].T))
	case "modPointees":
		if e.modRec != nil && args[0].Dyn != nil {
			*e.modRec = append(*e.modRec, modTarget{pointees: args[0].Dyn})
		}
		return Val{Typ: rt}, h, g
	case "modElems":
		if e.modRec != nil && args[0].Dyn != nil {
			*e.modRec = append(*e.modRec, modTarget{elems: args[0].Dyn})
		}
		return Val{Typ: rt}, h, g
	case "modMap":
		if e.modRec != nil && args[0].Dyn != nil {
			*e.modRec = append(*e.modRec, modTarget{mp: args[0].Dyn})
		}
		return Val{Typ: rt}, h, g
	}
	// uninterpreted ghost function
	var sorts, ts []string
	for i, a := range args {
		sorts = append(sorts, e.s.sortOf(fn.Params[i].Type()))
		ts = append(ts, a.T)
	}
	fname := "ghost_" + sanitize(name)
	if len(fn.TypeArgs()) > 0 {
		fname += "_" + sanitize(typeKey(fn.TypeArgs()[0]))
	}
	if len(args) == 0 {
		return Val{T: e.s.declConst(fname, e.s.sortOf(rt)), Typ: rt}, h, g
	}
	e.s.declFun(fname, sorts, e.s.sortOf(rt))
	return Val{T: "(" + fname + " " + strings.Join(ts, " ") + ")", Typ: rt}, h, g
}

// ---------------------------------------------------------------- contracts

func (e *Exec) wantClause(c *Clause) bool {
	if len(e.checkTags) == 0 || len(c.Tags) == 0 {
		return true
	}
	for _, t := range c.Tags {
		if e.checkTags[t] {
			return true
		}
	}
	return false
}

// evalSpec evaluates a boolean spec function on args in heap h (pre = heap for old()).
func (e *Exec) evalSpec(sf *ssa.Function, args []Val, h *Heap, pre *Heap) string {
	if sf == nil {
		panic("missing spec function")
	}
	if len(args) != len(sf.Params) {
		panic(fmt.Sprintf("spec %s: %d args for %d params", sf.Name(), len(args), len(sf.Params)))
	}
	e.specDepth++
	defer func() { e.specDepth-- }()
	savedPriv := append([]*privRef{}, e.priv...)
	savedAllAllocs := append([]string{}, e.allAllocs...)
	defer func() { e.priv = savedPriv; e.allAllocs = savedAllAllocs }()
	if pre != nil && usesOld(sf, map[*ssa.Function]bool{}) {
		// first evaluation in the pre-state to obtain the values of old(...) arguments
		old := map[ssa.Value]Val{}
		e.oldStack = append(e.oldStack, nil) // nested old() is identity in the pre-run
		nf := e.newFrame(sf, "")
		e.oldCollect = append(e.oldCollect, old)
		e.inlineStk = append(e.inlineStk, sf)
		e.run(nf, args, pre, "true")
		e.inlineStk = e.inlineStk[:len(e.inlineStk)-1]
		e.oldCollect = e.oldCollect[:len(e.oldCollect)-1]
		e.oldStack = e.oldStack[:len(e.oldStack)-1]
		for k, v := range nf.vals {
			old[k] = v
		}
		e.oldStack = append(e.oldStack, old)
		defer func() { e.oldStack = e.oldStack[:len(e.oldStack)-1] }()
	}
	nf := e.newFrame(sf, "")
	e.inlineStk = append(e.inlineStk, sf)
	res, _, _ := e.run(nf, args, h, "true")
	e.inlineStk = e.inlineStk[:len(e.inlineStk)-1]
	if len(res) != 1 {
		panic("spec function must return one bool: " + sf.Name())
	}
	return res[0].T
}

// evalModifies runs a modifies function and collects the locations it names.
func (e *Exec) evalModifies(sf *ssa.Function, args []Val, h *Heap) []modTarget {
	var rec []modTarget
	saved := e.modRec
	e.modRec = &rec
	e.specDepth++
	nf := e.newFrame(sf, "")
	e.inlineStk = append(e.inlineStk, sf)
	savedPriv := append([]*privRef{}, e.priv...)
	savedAllAllocs := append([]string{}, e.allAllocs...)
	e.run(nf, args, h, "true")
	e.priv = savedPriv
	e.allAllocs = savedAllAllocs
	e.inlineStk = e.inlineStk[:len(e.inlineStk)-1]
	e.specDepth--
	e.modRec = saved
	return rec
}

func (e *Exec) applyMod(h *Heap, m modTarget) {
	switch {
	case m.addr != nil:
		e.storeAt(h, m.addr, e.s.freshConst("mod", e.s.sortOf(m.addr.Typ)))
	case m.elems != nil:
		st := m.elems.Typ.Underlying().(*types.Slice)
		comp := e.elemComp(st.Elem())
		h.m[comp] = store(e.hget(h, comp), "(sl_base "+m.elems.T+")", e.s.freshConst("mod", e.s.arrSort(e.s.sortOf(st.Elem()))))
	case m.pointees != nil:
		e.pointeesOnly = true
		e.havocPointee(h, *m.pointees, 0)
		e.pointeesOnly = false
	case m.mp != nil:
		mt := m.mp.Typ.Underlying().(*types.Map)
		dc, vc := e.mapComps(mt)
		h.m[dc] = store(e.hget(h, dc), m.mp.T, e.s.freshConst("mod", "(Array "+e.s.sortOf(mt.Key())+" Bool)"))
		h.m[vc] = store(e.hget(h, vc), m.mp.T, e.s.freshConst("mod", "(Array "+e.s.sortOf(mt.Key())+" "+e.s.sortOf(mt.Elem())+")"))
	}
}

func (e *Exec) contractCall(f *frame, in ssa.Instruction, sp *FuncSpec, key string, args []Val, rt types.Type, h *Heap, g string) (Val, *Heap, string) {
	if e.pure > 0 {
		panic("contract call inside quantifier body: " + key)
	}
	short := shortName(sp.Key)
	if e.specDepth == 0 {
		e.usedSpecs[key] = true
	}
	e.callOrd["call:"+key]++
	ord := e.callOrd["call:"+key]
	// variadic / receiver arity is already flattened by SSA
	for _, c := range sp.Clauses {
		if c.Kind != KRequires {
			continue
		}
		if e.specDepth > 0 || !e.wantClause(c) {
			continue
		}
		if e.overridden(sp, key, c) {
			continue
		}
		t := e.evalSpec(e.eng.ld.specFunc(sp, c), args, h, nil)
		e.addObligation(f, "call-pre", c, fmt.Sprintf("%s.%s@%s%d", short, labelOr(c, "pre"), f.path, ord), g, t, in.Pos())
	}
	for _, a := range args {
		e.escape(a)
	}
	pre := h
	post := h.clone()
	callee := e.curCallee
	e.curCallee = nil
	inferred := false
	if !sp.ModAll && !sp.ModNone && !sp.Trusted && !hasModifies(sp) && callee != nil && len(callee.Blocks) > 0 {
		// no frame declared: use the inferred one (modset.go), a sound over-approximation of the body
		if ms := e.eng.modSetOf(callee); !ms.all {
			e.applyModSet(ms, post)
			e.reassertPrivate(pre, post)
			inferred = true
		}
	}
	if inferred {
	} else if sp.ModAll || (!sp.ModNone && !sp.Trusted && !hasModifies(sp)) {
		post = e.havocAll(post, "contract call (modifies everything): "+key)
	} else {
		for _, cn := range sp.ModComps {
			comp := e.resolveCompName(cn)
			post.m[comp] = e.s.freshConst("modc", e.compSort[comp])
		}
		for _, c := range sp.Clauses {
			if c.Kind == KModifies {
				// modifies functions may mention results: bind them after creation (below)
			}
		}
	}
	var res Val
	defined := false
	for _, c := range sp.Clauses {
		if c.Kind == KReturns {
			res = e.evalSpecVal(e.eng.ld.specFunc(sp, c), args, pre)
			res.Typ = rt
			defined = true
		}
	}
	if !defined {
		res = e.resultVal("r_"+short, rt)
	}
	e.logCall(key, res)
	var resList []Val
	if tup, ok := rt.(*types.Tuple); ok {
		if tup.Len() > 0 {
			resList = res.Tup
		}
	} else {
		resList = []Val{res}
	}
	full := append(append([]Val{}, args...), resList...)
	if !inferred && !(sp.ModAll || (!sp.ModNone && !sp.Trusted && !hasModifies(sp))) {
		for _, c := range sp.Clauses {
			if c.Kind == KModifies {
				for _, m := range e.evalModifies(e.eng.ld.specFunc(sp, c), full, pre) {
					e.applyMod(post, m)
				}
			}
		}
		e.reassertPrivate(pre, post)
	}
	e.applyGhostSets(sp, full, post, g)
	// ghost variables the callee assigns at its own calls ("atcall ... sets"): their values after the call are the
	// callee's, unknown here - forgotten before its postconditions (which may mention them) are assumed. Without
	// this a postcondition "ret0 ==> ghostX" would be read against the caller's value of ghostX.
	if !sp.Trusted {
		done := map[string]bool{}
		for _, c := range sp.Clauses {
			if c.Kind != KAtCallSet || done[c.Label] {
				continue
			}
			done[c.Label] = true
			if pkg := e.eng.ld.ssaPkg(sp.PkgPath); pkg != nil {
				if varFn := pkg.Func(c.GoName + "_var"); varFn != nil {
					a := e.addrOf(e.evalSpecVal(varFn, nil, post))
					e.storeAt(post, a, e.s.freshConst("cg", e.s.sortOf(a.Typ)))
				}
			}
		}
	}
	e.lockOps(sp, args, post)
	gout := g
	for _, c := range sp.Clauses {
		if c.Kind != KEnsures || c.SinceLock != "" {
			continue // (a since-lock postcondition speaks about a state inside the callee: not used at call sites)
		}
		txt := strings.TrimSpace(c.Text)
		if strings.HasPrefix(txt, "fresh(") && strings.HasSuffix(txt, ")") {
			name := txt[6 : len(txt)-1]
			for i, rn := range sp.ResultNames {
				if rn == name && i < len(resList) {
					r := &resList[i]
					if pt, ok := r.Typ.Underlying().(*types.Pointer); ok {
						e.priv = append(e.priv, &privRef{ref: r.T, comps: e.objComps(pt.Elem())})
						r.Allocs = append(r.Allocs, r.T)
					}
				}
			}
			continue
		}
		if txt == "false" {
			gout = "false"
			continue
		}
		t := e.evalSpec(e.eng.ld.specFunc(sp, c), full, post, pre)
		e.s.assert(implies(g, t))
	}
	if tup, ok := rt.(*types.Tuple); ok {
		if tup.Len() > 0 {
			res.Tup = resList
		}
	} else {
		res = resList[0]
	}
	// outcome probes: after the postconditions of a /repo callee were assumed, each shape of its boolean and error
	// results should still be possible here; one that is not is listed in the evidence (a contract that makes
	// "the callee never succeeds" an assumption of its callers shows up as such a line)
	if probesOn && !sp.Trusted && !sp.Ghost && e.specDepth == 0 && e.pure == 0 && e.quiet == 0 && gout != "false" && f.top {
		for i, r := range resList {
			var shapes [][2]string
			switch {
			case e.s.sortOf(r.Typ) == "Bool":
				shapes = [][2]string{{"true", r.T}, {"false", not(r.T)}}
			case r.Typ.String() == "error":
				shapes = [][2]string{{"nil", "(= (if_tag " + r.T + ") 0)"}, {"non-nil", not("(= (if_tag " + r.T + ") 0)")}}
			}
			for _, sh := range shapes {
				e.callOrd["probe:"+short]++
				o := &Obligation{Name: fmt.Sprintf("%s#probe.%s.result%d-%s@%s%d", e.funcName(), short, i, sh[0], f.path, e.callOrd["probe:"+short]), Func: e.funcName(), Kind: "probe",
					Pos: e.eng.prog.Fset.Position(in.Pos()).String(), Prefix: len(e.s.lines), Guard: gout, Goal: not(sh[1]), Script: e.s, Cover: true, Probe: true}
				e.obls = append(e.obls, o)
			}
		}
	}
	return res, post, gout
}

func hasModifies(sp *FuncSpec) bool {
	if len(sp.ModComps) > 0 {
		return true
	}
	for _, c := range sp.Clauses {
		if c.Kind == KModifies {
			return true
		}
	}
	return false
}

// resolveCompName maps "T.f" (type in the package under verification) or a full component key.
func (e *Exec) resolveCompName(name string) string {
	if _, ok := e.compSort[name]; ok {
		return name
	}
	if c, ok := e.eng.ld.compByShort(e, name); ok {
		return c
	}
	panic("unknown component " + name)
}

// ---------------------------------------------------------------- locks (C16, C09)

func (e *Exec) heldTerm(h *Heap, m Val) string {
	v := m
	if v.Dyn != nil {
		v = *v.Dyn
	}
	e.compDecl("LOCKS", "(Array Ref Bool)")
	return sel(e.hget(h, "LOCKS"), v.T)
}

// guardedAccess: the lock discipline at a load or store of a protected field. Returns the use record that a
// map loaded from the field carries to the operations on its contents.
func (e *Exec) guardedAccess(f *frame, a *Addr, h *Heap, g string, in ssa.Instruction, write bool) *guardUse {
	if a.Comp == "" || len(e.eng.guarded) == 0 || len(a.Path) > 0 {
		return nil
	}
	gi, ok := e.eng.guarded[a.Comp]
	if !ok || e.specDepth > 0 {
		return nil
	}
	if e.isPrivateRef(a.Ref) {
		return nil // an object this function allocated and has not published yet: nobody else can reach it
	}
	gu := &guardUse{gi: gi, mref: e.refTerm(&Addr{Ref: a.Ref, Comp: gi.mutexComp})}
	if mt, ok := a.Typ.Underlying().(*types.Map); ok {
		gi.mapType = mt
	}
	e.guardObl(f, gu, h, g, in, write)
	return gu
}

// guardObl emits "the protecting mutex is held here".
func (e *Exec) guardObl(f *frame, gu *guardUse, h *Heap, g string, in ssa.Instruction, write bool) {
	if gu == nil || e.specDepth > 0 || e.quiet > 0 || (gu.gi.rule.WriteOnly && !write && !(e.topSpec != nil && e.topSpec.ReadsLocked)) || !e.wantClause(gu.gi.clause) {
		return
	}
	if e.topSpec != nil && e.topSpec.LockExempt != "" {
		e.eng.assumes["lock rules not applied in "+e.topSpec.Key+" ("+e.topSpec.LockExempt+")"] = true
		return
	}
	e.compDecl("LOCKS", "(Array Ref Bool)")
	e.compDecl("RLOCKS", "(Array Ref Bool)")
	t := sel(e.hget(h, "LOCKS"), gu.mref)
	e.callOrd["guard:"+gu.gi.comp]++
	kind := "read"
	if write {
		kind = "write"
	} else {
		// a read is also fine under a shared (read) acquisition of an RWMutex; a write needs the exclusive one
		t = "(or " + t + " " + sel(e.hget(h, "RLOCKS"), gu.mref) + ")"
	}
	e.addObligation(f, "lock-held", gu.gi.clause, fmt.Sprintf("%s.%s@%s%d", labelOr(gu.gi.clause, "guarded"), kind, f.path, e.callOrd["guard:"+gu.gi.comp]), g, t, in.Pos())
}

// lockOps applies the acquires / releases clauses of a trusted lock operation.
func (e *Exec) lockOps(sp *FuncSpec, args []Val, post *Heap) {
	if len(sp.Acquires) == 0 && len(sp.Releases) == 0 {
		return
	}
	e.compDecl("LOCKS", "(Array Ref Bool)")
	find := func(name string) (Val, bool) {
		for i, pn := range sp.ParamNames {
			if pn == name && i < len(args) {
				return args[i], true
			}
		}
		return Val{}, false
	}
	e.compDecl("RLOCKS", "(Array Ref Bool)")
	for _, pn := range sp.Acquires {
		lockComp := "LOCKS"
		if strings.HasPrefix(pn, "read:") {
			pn, lockComp = strings.TrimPrefix(pn, "read:"), "RLOCKS"
		}
		m, ok := find(pn)
		if !ok {
			panic("acquires: no parameter " + pn + " in " + sp.Key)
		}
		post.m[lockComp] = store(e.hget(post, lockComp), m.T, "true")
		// whatever the mutex protects may have been changed by its previous holders
		mc := ""
		if m.A != nil && len(m.A.Path) == 0 {
			mc = m.A.Comp
		}
		var comps []string
		// a mutex reached through a pointer variable (metricsMutex = &sync.Mutex{}) is not one of the
		// struct-embedded mutexes the rules name (no /repo code takes their address except to lock them)
		for c, gi := range e.eng.guarded {
			if mc != "" && gi.mutexComp == mc {
				comps = append(comps, c)
			}
		}
		sort.Strings(comps)
		for _, c := range comps {
			if _, ok := e.compSort[c]; !ok {
				mt := e.eng.guarded[c].mapType
				if mt == nil {
					continue // never touched by this function
				}
				// a map-holding field not read yet: declared here, so that the state at this acquisition can
				// be named later ("ensures sincelock")
				e.compDecl(c, "(Array Ref "+e.s.sortOf(mt)+")")
			}
			post.m[c] = e.s.freshConst("locked", e.compSort[c])
			e.snapshotAtLock(post, c)
			if mt := e.eng.guarded[c].mapType; mt != nil {
				dc, vc := e.mapComps(mt)
				post.m[dc] = e.s.freshConst("locked", e.compSort[dc])
				post.m[vc] = e.s.freshConst("locked", e.compSort[vc])
				e.snapshotAtLock(post, dc)
				e.snapshotAtLock(post, vc)
			}
		}
	}
	for _, pn := range sp.Releases {
		lockComp := "LOCKS"
		if strings.HasPrefix(pn, "read:") {
			pn, lockComp = strings.TrimPrefix(pn, "read:"), "RLOCKS"
		}
		m, ok := find(pn)
		if !ok {
			panic("releases: no parameter " + pn + " in " + sp.Key)
		}
		post.m[lockComp] = store(e.hget(post, lockComp), m.T, "false")
	}
}

var _ = token.ADD

// probesOn: outcome probes at contract calls (thorough tier, or VERIF_PROBES=1)
var probesOn = os.Getenv("VERIF_PROBES") != ""

// snapshotAtLock remembers, as hidden heap components, what a guarded component held right after its mutex was
// acquired (heap components merge path by path, so the snapshots are path sensitive and loop-aware like any other).
func (e *Exec) snapshotAtLock(h *Heap, comp string) {
	sc := "@lock|" + comp
	e.compDecl(sc, e.compSort[comp])
	h.m[sc] = h.m[comp]
	// ... and what it held after the first acquisition on this path
	fc := "@lock1|" + comp
	e.compDecl(fc, e.compSort[comp])
	if _, ok := h.m[fc]; !ok {
		h.m[fc] = h.m[comp]
	}
}

// lockSnapshot: the heap h with every guarded component put back to its value at the last (or first) acquisition;
// the pre-state that old() refers to in "ensures sincelock" / "ensures sincefirstlock" clauses.
func (e *Exec) lockSnapshot(h *Heap, which string) *Heap {
	prefix := "@lock|"
	if which == "first" {
		prefix = "@lock1|"
	}
	out := h.clone()
	for k, v := range h.m {
		if strings.HasPrefix(k, prefix) {
			out.m[strings.TrimPrefix(k, prefix)] = v
		}
	}
	return out
}

func usesOld(fn *ssa.Function, seen map[*ssa.Function]bool) bool {
	if seen[fn] {
		return false
	}
	seen[fn] = true
	for _, b := range fn.Blocks {
		for _, in := range b.Instrs {
			if c, ok := in.(*ssa.Call); ok {
				if callee, ok := c.Call.Value.(*ssa.Function); ok {
					n := callee.Name()
					if o := callee.Origin(); o != nil {
						n = o.Name()
					}
					if n == "old" {
						return true
					}
				}
			}
		}
	}
	for _, a := range fn.AnonFuncs {
		if usesOld(a, seen) {
			return true
		}
	}
	return false
}

// overridden: the function under verification replaces this callee clause at its call sites.
func (e *Exec) overridden(sp *FuncSpec, key string, c *Clause) bool {
	if e.topSpec == nil || c.Label == "" {
		return false
	}
	for _, tc := range e.topSpec.Clauses {
		if tc.Kind == KAssertCall && tc.Overrides == c.Label && (tc.Callee == sp.Key || matchCallee(key, tc.Callee) || matchCallee(strings.Replace(key, "::", ".", 1), tc.Callee)) {
			return true
		}
	}
	return false
}

func (e *Exec) inRepoFn(fn *ssa.Function) bool {
	root := fn
	for root.Parent() != nil {
		root = root.Parent()
	}
	return root.Pkg != nil && e.eng.ld.inRepo(root.Pkg.Pkg.Path())
}

// summaryCall: an un-contracted /repo callee that is not inlined. Its result is unconstrained and
// the heap components it may write (inferred, see modset.go) are forgotten.
func (e *Exec) summaryCall(f *frame, in ssa.Instruction, fn *ssa.Function, key string, args []Val, rt types.Type, h *Heap, g string) (Val, *Heap, string) {
	if e.pure > 0 {
		panic("call of " + key + " inside a quantifier body")
	}
	ms := e.eng.modSetOf(fn)
	if e.specDepth == 0 {
		e.havocked["summary:"+key]++
	}
	for _, a := range args {
		e.escape(a)
	}
	pre := h
	h = h.clone()
	if ms.all {
		h = e.havocAll(h, "summary of "+key+" (unbounded effects)")
	} else {
		e.applyModSet(ms, h)
		e.reassertPrivate(pre, h)
	}
	res := e.resultVal("r_"+shortName(key), rt)
	e.logCall(key, res)
	return res, h, g
}

// applyModSet forgets the components of an inferred frame.
func (e *Exec) applyModSet(ms *modSet, h *Heap) {
	{
		var names []string
		var dkeys []string
		for k := range ms.descs {
			dkeys = append(dkeys, k)
		}
		sort.Strings(dkeys) // deterministic order: declarations are numbered as they are first used
		for _, dk := range dkeys {
			d := ms.descs[dk]
			switch d.kind {
			case 'F':
				c, _ := e.fieldComp(d.t, d.field)
				names = append(names, c)
			case 'E':
				names = append(names, e.elemComp(d.t))
			case 'D':
				names = append(names, e.derefComp(d.t))
			case 'M':
				dc, vc := e.mapComps(d.t.Underlying().(*types.Map))
				names = append(names, dc, vc)
			case 'G':
				names = append(names, e.globalComp(d.g))
			}
		}
		for _, n := range ms.named {
			names = append(names, e.resolveCompName(n))
		}
		for gname := range ms.ghosts {
			if _, ok := e.compSort[gname]; ok {
				names = append(names, gname)
			}
		}
		if ms.hasExpr {
			for c := range e.compSort {
				if strings.HasPrefix(c, "G|") {
					names = append(names, c)
				}
			}
			for c := range e.eng.ghostVars {
				if _, ok := e.compSort[c]; ok {
					names = append(names, c)
				}
			}
		}
		sort.Strings(names)
		for _, c := range names {
			if e.eng.stable[c] {
				continue
			}
			h.m[c] = e.s.freshConst("sm", e.compSort[c])
		}
	}
}

// evalSpecVal evaluates a value-returning spec function.
func (e *Exec) evalSpecVal(sf *ssa.Function, args []Val, h *Heap) Val {
	e.specDepth++
	defer func() { e.specDepth-- }()
	savedPriv := append([]*privRef{}, e.priv...)
	savedAllAllocs := append([]string{}, e.allAllocs...)
	defer func() { e.priv = savedPriv; e.allAllocs = savedAllAllocs }()
	nf := e.newFrame(sf, "")
	e.inlineStk = append(e.inlineStk, sf)
	res, _, _ := e.run(nf, args, h, "true")
	e.inlineStk = e.inlineStk[:len(e.inlineStk)-1]
	return res[0]
}

// applyGhostSets performs the ghost assignments a contract attaches to the function's return.
func (e *Exec) applyGhostSets(sp *FuncSpec, full []Val, post *Heap, g string) {
	for _, c := range sp.Clauses {
		if c.Kind != KGhostSet {
			continue
		}
		pkg := e.eng.ld.ssaPkg(sp.PkgPath)
		valFn := pkg.Func(c.GoName)
		condFn := pkg.Func(c.GoName + "_cond")
		varFn := pkg.Func(c.GoName + "_var")
		if valFn == nil || condFn == nil || varFn == nil {
			panic("ghostset functions missing for " + c.Label)
		}
		addr := e.evalSpecVal(varFn, nil, post)
		a := e.addrOf(addr)
		cond := e.evalSpec(condFn, full, post, nil)
		val := e.evalSpecVal(valFn, full, post)
		old := e.load(post, a)
		nv := e.named("gs", a.Typ, ite(cond, val.T, old))
		e.storeAt(post, a, nv)
	}
}

// isOpaque: an opaque pure function stays an uninterpreted symbol unless the contract under
// verification reveals it.
func (e *Exec) isOpaque(fn *ssa.Function) bool {
	if !e.eng.opaque[fn.Name()] {
		return false
	}
	if e.topSpec != nil {
		for _, r := range e.topSpec.Reveal {
			if r == fn.Name() {
				return false
			}
		}
	}
	return true
}

var pkgQualRe = regexp.MustCompile(`[A-Za-z0-9_\-./]+\.`)

// matchCallee: a call-site clause names its callee by full key, by a suffix of it, or without package paths.
func matchCallee(key, pattern string) bool {
	if key == pattern || strings.HasSuffix(key, pattern) {
		return true
	}
	short := key
	if i := strings.Index(key, ")."); i >= 0 && strings.HasPrefix(key, "(") {
		recv := key[1:i]
		star := ""
		if strings.HasPrefix(recv, "*") {
			star, recv = "*", recv[1:]
		}
		if j := strings.LastIndex(recv, "."); j >= 0 {
			recv = recv[j+1:]
		}
		short = "(" + star + recv + ")" + key[i+1:]
	}
	return short == pattern
}

func (e *Exec) calleeKey(cc *ssa.CallCommon, fnv Val) string {
	if cc.IsInvoke() {
		return "(" + typeKey(cc.Value.Type()) + ")." + cc.Method.Name()
	}
	if fn, ok := cc.Value.(*ssa.Function); ok {
		_, k := calleeKeyOf(fn)
		return k
	}
	if fnv.Clo != nil {
		_, k := calleeKeyOf(fnv.Clo.fn)
		return k
	}
	if fnv.Fn != nil {
		_, k := calleeKeyOf(fnv.Fn)
		return k
	}
	return "?"
}

// chanSendAsserts: "atcall chansend requires (v T) :: E" clauses of the contract under verification, checked at
// every channel send of a value of that type.
func (e *Exec) chanSendAsserts(f *frame, in ssa.Instruction, v Val, h *Heap, g string) {
	if e.topSpec == nil || e.specDepth != 0 || e.pure != 0 || e.quiet != 0 {
		return
	}
	for _, c := range e.topSpec.Clauses {
		if c.Kind != KAssertCall || c.Callee != "chansend" {
			continue
		}
		sf := e.eng.ld.specFunc(e.topSpec, c)
		full := append(append([]Val{}, e.topFrame.params...), v)
		if len(sf.Params) != len(full) || !types.Identical(sf.Params[len(full)-1].Type(), v.Typ) {
			continue // a send of another type
		}
		e.clauseHit[c] = true
		if !e.wantClause(c) {
			continue
		}
		e.callOrd["chansend:"+c.Label]++
		t := e.evalSpec(sf, full, h, e.preHeap)
		e.addObligation(f, "atcall", c, fmt.Sprintf("chansend.%s@%s%d", labelOr(c, "atcall"), f.path, e.callOrd["chansend:"+c.Label]), g, t, in.Pos())
	}
}

// atCallAsserts: call-site assertions the contract under verification attaches to calls of a callee.
func (e *Exec) atCallAsserts(f *frame, in ssa.Instruction, cc *ssa.CallCommon, fnv Val, args []Val, h *Heap, g string) {
	key := ""
	for _, c := range e.topSpec.Clauses {
		if c.Kind != KAssertCall {
			continue
		}
		if key == "" {
			key = e.calleeKey(cc, fnv)
		}
		if !matchCallee(key, c.Callee) {
			continue
		}
		e.clauseHit[c] = true
		if !e.wantClause(c) {
			continue
		}
		full := append([]Val{}, e.topFrame.params...)
		if cc.IsInvoke() {
			full = append(full, fnv)
		}
		full = append(full, args...)
		sf := e.eng.ld.specFunc(e.topSpec, c)
		if len(sf.Params) != len(full) {
			panic(fmt.Sprintf("%s:%d: atcall: parameter list does not match the call of %s (%d arguments)", c.File, c.Line, key, len(full)-len(e.topFrame.params)))
		}
		e.callOrd["atcall:"+c.Label+key]++
		t := e.evalSpec(sf, full, h, e.preHeap) // old(...) = state at function entry
		e.addObligation(f, "atcall", c, fmt.Sprintf("%s.%s@%s%d", shortName(key), labelOr(c, "atcall"), f.path, e.callOrd["atcall:"+c.Label+key]), g, t, in.Pos())
		if c.Establishes && e.quiet == 0 {
			e.s.assert(implies(g, t))
		}
	}
}
