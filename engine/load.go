package main

import (
	"fmt"
	"go/types"
	"os"
	"path/filepath"
	"sort"
	"strings"

	"golang.org/x/tools/go/packages"
	"golang.org/x/tools/go/ssa"
)

const repoModule = "github.com/Cloud-Foundations/keymaster"

type Loader struct {
	repo           string
	trustedDir     string
	pkgSpecs       map[string]*PkgSpec // by package path
	pkgs           []*packages.Package
	byPath         map[string]*packages.Package
	prog           *ssa.Program
	inlineExternal map[string]bool
	loadErrors     []string
}

func (l *Loader) inRepo(path string) bool {
	return path == repoModule || strings.HasPrefix(path, repoModule+"/")
}

// findContractFiles returns the directories of /repo that carry a zz_verif_contracts.go.
func findContractFiles(repo string) ([]string, error) {
	var out []string
	err := filepath.Walk(repo, func(p string, info os.FileInfo, err error) error {
		if err != nil {
			return nil
		}
		if info.IsDir() && (info.Name() == ".git" || info.Name() == "vendor") {
			return filepath.SkipDir
		}
		if !info.IsDir() && info.Name() == "zz_verif_contracts.go" {
			out = append(out, p)
		}
		return nil
	})
	sort.Strings(out)
	return out, err
}

// checkCommentOnly enforces that a contract file adds no declarations.
func checkCommentOnly(path string) error {
	data, err := os.ReadFile(path)
	if err != nil {
		return err
	}
	sawTag, sawPkg := false, false
	for i, l := range strings.Split(string(data), "\n") {
		t := strings.TrimSpace(l)
		switch {
		case t == "" || strings.HasPrefix(t, "//"):
			if strings.HasPrefix(t, "//go:build verif") {
				sawTag = true
			}
		case strings.HasPrefix(t, "package ") && !sawPkg:
			sawPkg = true
		default:
			return fmt.Errorf("%s:%d: contract file must contain comments only, found %q", path, i+1, t)
		}
	}
	if !sawTag {
		return fmt.Errorf("%s: missing //go:build verif", path)
	}
	return nil
}

func Load(repo, trustedDir string, only map[string]bool) (*Loader, error) {
	l := &Loader{repo: repo, trustedDir: trustedDir, pkgSpecs: map[string]*PkgSpec{}, byPath: map[string]*packages.Package{}, inlineExternal: map[string]bool{}}
	files, err := findContractFiles(repo)
	if err != nil {
		return nil, err
	}
	overlay := map[string][]byte{}
	var patterns []string
	for _, cf := range files {
		if err := checkCommentOnly(cf); err != nil {
			return nil, err
		}
		dir := filepath.Dir(cf)
		rel, _ := filepath.Rel(repo, dir)
		pkgPath := repoModule
		if rel != "." {
			pkgPath = repoModule + "/" + filepath.ToSlash(rel)
		}
		if only != nil && !only[pkgPath] {
			continue
		}
		ps := &PkgSpec{Dir: dir, PkgPath: pkgPath}
		if err := parseSpecFile(cf, ps, false); err != nil {
			return nil, err
		}
		if err := ps.generate(trustedDir); err != nil {
			return nil, err
		}
		for gfn, gb := range ps.GenFiles {
			overlay[gfn] = gb
		}
		l.pkgSpecs[pkgPath] = ps
		for _, k := range ps.InlineExt {
			l.inlineExternal[k] = true
		}
		patterns = append(patterns, "./"+filepath.ToSlash(rel))
	}
	if os.Getenv("VERIF_DUMP_GEN") != "" {
		for p, b := range overlay {
			os.WriteFile(filepath.Join(os.Getenv("VERIF_DUMP_GEN"), strings.ReplaceAll(strings.TrimPrefix(p, repo+"/"), "/", "__")), b, 0644)
		}
	}
	cfg := &packages.Config{
		Mode:       packages.LoadAllSyntax,
		Dir:        repo,
		Env:        append(os.Environ(), "PATH=/opt/veriftools/go1.26.8/bin:"+os.Getenv("PATH"), "CGO_ENABLED=0", "GOFLAGS=-mod=mod", "GOPROXY=off", "GOSUMDB=off", "GOTOOLCHAIN=local"),
		BuildFlags: []string{"-tags=verif"},
		Overlay:    overlay,
	}
	pkgs, err := packages.Load(cfg, patterns...)
	if err != nil {
		return nil, err
	}
	l.pkgs = pkgs
	prog := ssa.NewProgram(pkgs[0].Fset, ssa.GlobalDebug|ssa.InstantiateGenerics)
	seen := map[*packages.Package]bool{}
	var visit func(p *packages.Package)
	visit = func(p *packages.Package) {
		if seen[p] {
			return
		}
		seen[p] = true
		l.byPath[p.PkgPath] = p
		var imps []string
		for k := range p.Imports {
			imps = append(imps, k)
		}
		sort.Strings(imps)
		for _, k := range imps {
			visit(p.Imports[k])
		}
		if len(p.Errors) == 0 && p.Types != nil && p.TypesInfo != nil {
			prog.CreatePackage(p.Types, p.Syntax, p.TypesInfo, true)
		} else if !l.inRepo(p.PkgPath) && p.Types != nil {
			// an ill-typed third-party package (github.com/flynn/u2f/u2fhid needs cgo/libudev): created without
			// syntax so that packages importing it can be built; its functions have no bodies (unknown calls)
			func() {
				defer func() { recover() }()
				prog.CreatePackage(p.Types, nil, nil, true)
			}()
		} else if l.inRepo(p.PkgPath) {
			for _, e := range p.Errors {
				l.loadErrors = append(l.loadErrors, e.Error())
			}
		}
	}
	for _, p := range pkgs {
		visit(p)
	}
	for _, p := range pkgs {
		if len(p.Errors) > 0 {
			var msgs []string
			for _, e := range p.Errors {
				msgs = append(msgs, e.Error())
			}
			// (the loader is returned too: its contract tables tell which clauses the errors belong to)
			return l, fmt.Errorf("package %s does not type-check with its contracts:\n  %s", p.PkgPath, strings.Join(msgs, "\n  "))
		}
		if sp := prog.Package(p.Types); sp != nil {
			sp.Build()
		}
	}
	l.prog = prog
	return l, nil
}

func (l *Loader) ssaPkg(path string) *ssa.Package {
	p := l.byPath[path]
	if p == nil || p.Types == nil {
		return nil
	}
	sp := l.prog.Package(p.Types)
	if sp != nil {
		sp.Build()
	}
	return sp
}

// specFunc returns the SSA function generated for a clause.
func (l *Loader) specFunc(fs *FuncSpec, c *Clause) *ssa.Function {
	sp := l.ssaPkg(fs.PkgPath)
	if sp == nil {
		panic("no ssa package for " + fs.PkgPath)
	}
	f := sp.Func(c.GoName)
	if f == nil {
		panic("spec function " + c.GoName + " not found in " + fs.PkgPath)
	}
	return f
}

// lookupFunc finds the SSA function for a spec key in a package.
func (l *Loader) lookupFunc(pkgPath, key string) *ssa.Function {
	sp := l.ssaPkg(pkgPath)
	if sp == nil {
		return nil
	}
	if !strings.HasPrefix(key, "(") {
		return sp.Func(key)
	}
	// (*T).m or (T).m
	end := strings.Index(key, ").")
	recv := key[1:end]
	name := key[end+2:]
	ptr := strings.HasPrefix(recv, "*")
	recv = strings.TrimPrefix(recv, "*")
	obj := sp.Pkg.Scope().Lookup(recv)
	if obj == nil {
		return nil
	}
	var t types.Type = obj.Type()
	if ptr {
		t = types.NewPointer(t)
	}
	return l.prog.LookupMethod(t, sp.Pkg, name)
}

// fieldTypeByShort: the declared type of field "T.f" (nil when unknown).
func (l *Loader) fieldTypeByShort(name string) types.Type {
	parts := strings.SplitN(name, ".", 2)
	if len(parts) != 2 {
		return nil
	}
	var paths []string
	for p := range l.pkgSpecs {
		paths = append(paths, p)
	}
	sort.Strings(paths)
	for _, p := range paths {
		pk := l.byPath[p]
		if pk == nil {
			continue
		}
		obj := pk.Types.Scope().Lookup(parts[0])
		if obj == nil {
			continue
		}
		st, ok := obj.Type().Underlying().(*types.Struct)
		if !ok {
			continue
		}
		for i := 0; i < st.NumFields(); i++ {
			if st.Field(i).Name() == parts[1] {
				return st.Field(i).Type()
			}
		}
	}
	return nil
}

// compByShort resolves "T.f" against the packages under contract.
func (l *Loader) compByShort(e *Exec, name string) (string, bool) {
	parts := strings.SplitN(name, ".", 2)
	if len(parts) != 2 {
		return "", false
	}
	var paths []string
	for p := range l.pkgSpecs {
		paths = append(paths, p)
	}
	sort.Strings(paths)
	for _, p := range paths {
		pk := l.byPath[p]
		if pk == nil {
			continue
		}
		obj := pk.Types.Scope().Lookup(parts[0])
		if obj == nil {
			continue
		}
		st, ok := obj.Type().Underlying().(*types.Struct)
		if !ok {
			continue
		}
		for i := 0; i < st.NumFields(); i++ {
			if st.Field(i).Name() == parts[1] {
				c, _ := e.fieldComp(obj.Type(), i)
				return c, true
			}
		}
	}
	return "", false
}

// repoFunctions lists every function (incl. methods and closures) of the /repo packages loaded.
func (l *Loader) repoFunctions() []*ssa.Function {
	var out []*ssa.Function
	seen := map[*ssa.Function]bool{}
	var add func(f *ssa.Function)
	add = func(f *ssa.Function) {
		if f == nil || seen[f] {
			return
		}
		seen[f] = true
		out = append(out, f)
		for _, a := range f.AnonFuncs {
			add(a)
		}
	}
	var paths []string
	for p := range l.byPath {
		if l.inRepo(p) {
			paths = append(paths, p)
		}
	}
	sort.Strings(paths)
	for _, p := range paths {
		sp := l.ssaPkg(p)
		if sp == nil {
			continue
		}
		var names []string
		for n := range sp.Members {
			names = append(names, n)
		}
		sort.Strings(names)
		for _, n := range names {
			switch m := sp.Members[n].(type) {
			case *ssa.Function:
				add(m)
			case *ssa.Type:
				for _, t := range []types.Type{m.Type(), types.NewPointer(m.Type())} {
					ms := l.prog.MethodSets.MethodSet(t)
					for i := 0; i < ms.Len(); i++ {
						add(l.prog.MethodValue(ms.At(i)))
					}
				}
			}
		}
	}
	return out
}
