package main

import (
	"fmt"
	"regexp/syntax"
	"strings"
)

// goRegexToSMT translates a Go (RE2) regular expression, with regexp.MatchString's search semantics, into an
// SMT-LIB regular-expression term over strings whose characters are bytes (\u{0}-\u{ff}). Supported: literals,
// character classes, ., concatenation, alternation, *, +, ?, {n,m}, capture groups, and ^ / $ at the two ends of
// the expression (or of every top-level alternative). Anything else panics (the contract must then use another
// formulation): the translation is exact or absent, never approximate.
func goRegexToSMT(pattern string) string {
	re, err := syntax.Parse(pattern, syntax.Perl)
	if err != nil {
		panic("strMatchesGoRe: " + err.Error())
	}
	re = re.Simplify()
	out := goReSearch(re)
	rememberGoRe(pattern, out)
	return out
}

func goReSearch(re *syntax.Regexp) string {
	if re.Op == syntax.OpAlternate {
		var alts []string
		for _, s := range re.Sub {
			alts = append(alts, goReSearch(s))
		}
		return "(re.union " + strings.Join(alts, " ") + ")"
	}
	if re.Op == syntax.OpCapture {
		return goReSearch(re.Sub[0])
	}
	subs := []*syntax.Regexp{re}
	if re.Op == syntax.OpConcat {
		subs = re.Sub
	}
	begin, end := false, false
	if len(subs) > 0 && subs[0].Op == syntax.OpBeginText {
		begin = true
		subs = subs[1:]
	}
	if len(subs) > 0 && subs[len(subs)-1].Op == syntax.OpEndText {
		end = true
		subs = subs[:len(subs)-1]
	}
	var parts []string
	if !begin {
		parts = append(parts, "re.all")
	}
	for _, s := range subs {
		parts = append(parts, goReTerm(s))
	}
	if !end {
		parts = append(parts, "re.all")
	}
	if len(parts) == 0 {
		return `(str.to_re "")`
	}
	if len(parts) == 1 {
		return parts[0]
	}
	return "(re.++ " + strings.Join(parts, " ") + ")"
}

func smtChar(r rune) string {
	if r > 0xff {
		panic(fmt.Sprintf("strMatchesGoRe: character %U outside the byte range", r))
	}
	return fmt.Sprintf(`"\u{%x}"`, r)
}

func goReTerm(re *syntax.Regexp) string {
	switch re.Op {
	case syntax.OpEmptyMatch:
		return `(str.to_re "")`
	case syntax.OpLiteral:
		if re.Flags&syntax.FoldCase != 0 {
			panic("strMatchesGoRe: case folding is not supported")
		}
		var b strings.Builder
		for _, r := range re.Rune {
			if r > 0xff {
				panic("strMatchesGoRe: non-byte literal")
			}
			fmt.Fprintf(&b, `\u{%x}`, r)
		}
		return `(str.to_re "` + b.String() + `")`
	case syntax.OpCharClass:
		var alts []string
		for i := 0; i+1 < len(re.Rune); i += 2 {
			lo, hi := re.Rune[i], re.Rune[i+1]
			if lo > 0xff {
				continue
			}
			if hi > 0xff {
				hi = 0xff
			}
			alts = append(alts, "(re.range "+smtChar(lo)+" "+smtChar(hi)+")")
		}
		if len(alts) == 0 {
			return "re.none"
		}
		if len(alts) == 1 {
			return alts[0]
		}
		return "(re.union " + strings.Join(alts, " ") + ")"
	case syntax.OpAnyCharNotNL:
		return `(re.union (re.range "\u{0}" "\u{9}") (re.range "\u{b}" "\u{ff}"))`
	case syntax.OpAnyChar:
		return `(re.range "\u{0}" "\u{ff}")`
	case syntax.OpCapture:
		return goReTerm(re.Sub[0])
	case syntax.OpStar:
		return "(re.* " + goReTerm(re.Sub[0]) + ")"
	case syntax.OpPlus:
		return "(re.+ " + goReTerm(re.Sub[0]) + ")"
	case syntax.OpQuest:
		return "(re.opt " + goReTerm(re.Sub[0]) + ")"
	case syntax.OpRepeat:
		if re.Max < 0 {
			return fmt.Sprintf("(re.++ ((_ re.loop %d %d) %s) (re.* %s))", re.Min, re.Min, goReTerm(re.Sub[0]), goReTerm(re.Sub[0]))
		}
		return fmt.Sprintf("((_ re.loop %d %d) %s)", re.Min, re.Max, goReTerm(re.Sub[0]))
	case syntax.OpConcat:
		var parts []string
		for _, s := range re.Sub {
			parts = append(parts, goReTerm(s))
		}
		return "(re.++ " + strings.Join(parts, " ") + ")"
	case syntax.OpAlternate:
		var parts []string
		for _, s := range re.Sub {
			parts = append(parts, goReTerm(s))
		}
		return "(re.union " + strings.Join(parts, " ") + ")"
	}
	panic("strMatchesGoRe: unsupported construct " + re.Op.String() + " in " + re.String())
}

// tryGoRegexToSMT: the translation, or false when the pattern uses an unsupported construct.
func tryGoRegexToSMT(pattern string) (re string, ok bool) {
	defer func() {
		if recover() != nil {
			ok = false
		}
	}()
	return goRegexToSMT(pattern), true
}
