package main

import (
	"fmt"
	"go/constant"
	"go/types"
	"math/big"
	"strings"
)

// Script accumulates SMT-LIB commands in program order; an obligation is a prefix of it.
type Script struct {
	decls    []string // declarations: never rolled back, always emitted in full
	lines    []string // positional: define-fun and assert
	declared map[string]bool
	nfresh   int
	sorts    map[string]string // struct key -> datatype name
	sortDecl []string          // datatype declarations (always emitted first)
	structs  map[string]*structInfo
	typeIDs  map[string]int
	typeByID []types.Type
	funs     map[string]bool
	opaque   bool // strings as uninterpreted sort
	mathInt  bool // Go int as mathematical integer (with no-overflow obligations)
	lineInfo []lineInfo
	declName []string
	known    map[string]bool
	isDef    map[string]bool
	closure  map[string]map[string]bool
}

type structInfo struct {
	name   string
	st     *types.Struct
	fields []string // accessor names
	sorts  []string
}

func newScript() *Script {
	s := &Script{declared: map[string]bool{}, sorts: map[string]string{}, structs: map[string]*structInfo{}, typeIDs: map[string]int{}, funs: map[string]bool{}}
	s.typeByID = append(s.typeByID, nil)
	return s
}

func (s *Script) preamble() string {
	ix := s.ixSort()
	pre := `(define-sort Ref () Int)
(define-fun null () Ref 0)
(declare-datatypes ((Slice 0)) (((mk_slice (sl_base Ref) (sl_off ` + ix + `) (sl_len ` + ix + `) (sl_cap ` + ix + `)))))
(declare-datatypes ((Iface 0)) (((mk_iface (if_tag Int) (if_ref Ref)))))
`
	if s.mathInt {
		// position of element k of a slice with offset o: o + k, written as a function application so that
		// quantified facts about "element k" have a trigger that matches ground element terms (solvers
		// normalise sums, and a pattern (+ o k) would match none of them)
		pre += "(declare-fun ix_at (Int Int) Int)\n(assert (forall ((o Int) (k Int)) (! (= (ix_at o k) (+ o k)) :pattern ((ix_at o k)))))\n"
	}
	return pre
}

// ixElem: the position of element idx of a slice whose offset is off.
func (s *Script) ixElem(off, idx string) string {
	if s.mathInt {
		return "(ix_at " + off + " " + idx + ")"
	}
	return s.ixAdd(off, idx)
}

// Index arithmetic: Go's int is a 64-bit vector by default and a mathematical integer in
// functions marked "intmode math" (where every int operation carries a no-overflow obligation).
func (s *Script) ixSort() string {
	if s.mathInt {
		return "Int"
	}
	return "(_ BitVec 64)"
}
func (s *Script) ixLit(n int64) string {
	if s.mathInt {
		if n < 0 {
			return fmt.Sprintf("(- %d)", -n)
		}
		return fmt.Sprint(n)
	}
	return bvLitInt(n, 64)
}
func (s *Script) ixAdd(a, b string) string {
	if s.mathInt {
		if b == "0" {
			return a
		}
		if a == "0" {
			return b
		}
		return "(+ " + a + " " + b + ")"
	}
	return "(bvadd " + a + " " + b + ")"
}
func (s *Script) ixSub(a, b string) string {
	if s.mathInt {
		if b == "0" {
			return a
		}
		return "(- " + a + " " + b + ")"
	}
	return "(bvsub " + a + " " + b + ")"
}
func (s *Script) ixLe(a, b string) string {
	if s.mathInt {
		return "(<= " + a + " " + b + ")"
	}
	return "(bvsle " + a + " " + b + ")"
}
func (s *Script) ixLt(a, b string) string {
	if s.mathInt {
		return "(< " + a + " " + b + ")"
	}
	return "(bvslt " + a + " " + b + ")"
}
func (s *Script) arrSort(es string) string { return "(Array " + s.ixSort() + " " + es + ")" }
func (s *Script) isMath(t types.Type) bool {
	if !s.mathInt || t == nil {
		return false
	}
	b, ok := t.Underlying().(*types.Basic)
	return ok && (b.Kind() == types.Int || b.Kind() == types.UntypedInt)
}

func (s *Script) emit(l string) { s.lines = append(s.lines, l) }
func (s *Script) decl(l string) { s.decls = append(s.decls, l) }
func (s *Script) mark() int     { return len(s.lines) }
func (s *Script) rollback(m int) { s.lines = s.lines[:m] }

func (s *Script) fresh(prefix string) string {
	s.nfresh++
	return fmt.Sprintf("%s_%d", sanitize(prefix), s.nfresh)
}

func sanitize(n string) string {
	var b strings.Builder
	for _, r := range n {
		if r >= 'a' && r <= 'z' || r >= 'A' && r <= 'Z' || r >= '0' && r <= '9' || r == '_' {
			b.WriteRune(r)
		} else {
			b.WriteByte('_')
		}
	}
	return b.String()
}

func (s *Script) declConst(name, sort string) string {
	if !s.declared[name] {
		s.declared[name] = true
		s.decl(fmt.Sprintf("(declare-const %s %s)", name, sort))
	}
	return name
}

func (s *Script) freshConst(prefix, sort string) string {
	return s.declConst(s.fresh(prefix), sort)
}

func (s *Script) define(prefix, sort, term string) string {
	// small terms are not worth naming
	if len(term) < 24 && !strings.Contains(term, " ") {
		return term
	}
	n := s.fresh(prefix)
	s.declared[n] = true
	s.emit(fmt.Sprintf("(define-fun %s () %s %s)", n, sort, term))
	return n
}

func (s *Script) assert(t string) {
	if t == "true" {
		return
	}
	s.emit("(assert " + t + ")")
}

func (s *Script) declFun(name string, args []string, ret string) {
	if s.funs[name] {
		return
	}
	s.funs[name] = true
	s.decl(fmt.Sprintf("(declare-fun %s (%s) %s)", name, strings.Join(args, " "), ret))
}

func (s *Script) strSort() string {
	if s.opaque {
		return "Str"
	}
	return "String"
}

func bvSort(n int) string { return fmt.Sprintf("(_ BitVec %d)", n) }

func isTimeType(t types.Type) bool {
	if n, ok := t.(*types.Named); ok {
		o := n.Obj()
		return o.Pkg() != nil && o.Pkg().Path() == "time" && o.Name() == "Time"
	}
	return false
}

func intWidth(b *types.Basic) int {
	switch b.Kind() {
	case types.Int8, types.Uint8:
		return 8
	case types.Int16, types.Uint16:
		return 16
	case types.Int32, types.Uint32:
		return 32
	case types.Int, types.Uint, types.Int64, types.Uint64, types.Uintptr, types.UntypedInt, types.UntypedRune:
		return 64
	}
	return 0
}

func isUnsigned(t types.Type) bool {
	if b, ok := t.Underlying().(*types.Basic); ok {
		return b.Info()&types.IsUnsigned != 0
	}
	return false
}

func isIntType(t types.Type) bool {
	if isTimeType(t) {
		return false
	}
	if b, ok := t.Underlying().(*types.Basic); ok {
		return b.Info()&types.IsInteger != 0
	}
	return false
}

func isStringType(t types.Type) bool {
	if b, ok := t.Underlying().(*types.Basic); ok {
		return b.Info()&types.IsString != 0
	}
	return false
}

func isFloatType(t types.Type) bool {
	if b, ok := t.Underlying().(*types.Basic); ok {
		return b.Info()&types.IsFloat != 0
	}
	return false
}

func typeKey(t types.Type) string {
	return types.TypeString(t, nil)
}

// sortOf maps a Go type to an SMT sort (declaring datatypes on demand).
func (s *Script) sortOf(t types.Type) string {
	if isTimeType(t) {
		return bvSort(64)
	}
	switch u := t.Underlying().(type) {
	case *types.Basic:
		switch {
		case u.Kind() == types.Bool || u.Kind() == types.UntypedBool:
			return "Bool"
		case u.Info()&types.IsInteger != 0:
			if s.isMath(t) {
				return "Int"
			}
			return bvSort(intWidth(u))
		case u.Info()&types.IsString != 0:
			return s.strSort()
		case u.Kind() == types.Float64 || u.Kind() == types.UntypedFloat:
			return "Float64"
		case u.Kind() == types.Float32:
			return "Float32"
		case u.Kind() == types.UnsafePointer || u.Kind() == types.UntypedNil:
			return "Ref"
		case u.Info()&types.IsComplex != 0:
			return "Ref"
		}
	case *types.Pointer, *types.Map, *types.Chan, *types.Signature:
		return "Ref"
	case *types.Slice:
		return "Slice"
	case *types.Array:
		return s.arrSort(s.sortOf(u.Elem()))
	case *types.Interface:
		return "Iface"
	case *types.Struct:
		return s.structOf(t).name
	case *types.Tuple:
		return "Tuple"
	case *types.TypeParam:
		return "Iface"
	}
	panic("sortOf: unsupported type " + t.String())
}

func (s *Script) structOf(t types.Type) *structInfo {
	key := typeKey(t)
	if _, isNamed := t.(*types.Named); !isNamed {
		if _, isAlias := t.(*types.Alias); !isAlias {
			key = "anon:" + typeKey(t.Underlying())
		}
	}
	if si, ok := s.structs[key]; ok {
		return si
	}
	st := t.Underlying().(*types.Struct)
	base := "S"
	if n, ok := t.(*types.Named); ok {
		base = "S_" + sanitize(n.Obj().Name())
	}
	name := fmt.Sprintf("%s_%d", base, len(s.structs)+1)
	si := &structInfo{name: name, st: st}
	s.structs[key] = si
	for i := 0; i < st.NumFields(); i++ {
		f := st.Field(i)
		si.fields = append(si.fields, fmt.Sprintf("%s_%d_%s", name, i, sanitize(f.Name())))
		si.sorts = append(si.sorts, s.sortOf(f.Type()))
	}
	var b strings.Builder
	fmt.Fprintf(&b, "(declare-datatypes ((%s 0)) (((mk_%s", name, name)
	for i := range si.fields {
		fmt.Fprintf(&b, " (%s %s)", si.fields[i], si.sorts[i])
	}
	b.WriteString("))))")
	if st.NumFields() == 0 {
		// datatypes need at least a constructor; nullary is fine
	}
	s.decl(b.String())
	return si
}

func (s *Script) typeID(t types.Type) int {
	k := typeKey(t)
	if id, ok := s.typeIDs[k]; ok {
		return id
	}
	id := len(s.typeByID)
	s.typeIDs[k] = id
	s.typeByID = append(s.typeByID, t)
	return id
}

// ---- term helpers ------------------------------------------------------------------

func bvLit(v *big.Int, width int) string {
	m := new(big.Int).Lsh(big.NewInt(1), uint(width))
	x := new(big.Int).Mod(v, m)
	if width%4 == 0 {
		return fmt.Sprintf("#x%0*s", width/4, x.Text(16))
	}
	return fmt.Sprintf("#b%0*s", width, x.Text(2))
}

func bvLitInt(v int64, width int) string { return bvLit(big.NewInt(v), width) }

func smtStringLit(str string) string {
	var b strings.Builder
	b.WriteByte('"')
	for i := 0; i < len(str); i++ {
		c := str[i]
		switch {
		case c == '"':
			b.WriteString(`""`)
		case c >= 0x20 && c < 0x7f && c != '\\':
			b.WriteByte(c)
		default:
			fmt.Fprintf(&b, `\u{%x}`, c)
		}
	}
	b.WriteByte('"')
	return b.String()
}

func and(ts ...string) string {
	var o []string
	for _, t := range ts {
		if t == "true" || t == "" {
			continue
		}
		if t == "false" {
			return "false"
		}
		o = append(o, t)
	}
	switch len(o) {
	case 0:
		return "true"
	case 1:
		return o[0]
	}
	return "(and " + strings.Join(o, " ") + ")"
}

func or(ts ...string) string {
	var o []string
	for _, t := range ts {
		if t == "false" || t == "" {
			continue
		}
		if t == "true" {
			return "true"
		}
		o = append(o, t)
	}
	switch len(o) {
	case 0:
		return "false"
	case 1:
		return o[0]
	}
	return "(or " + strings.Join(o, " ") + ")"
}

func not(t string) string {
	switch t {
	case "true":
		return "false"
	case "false":
		return "true"
	}
	if strings.HasPrefix(t, "(not ") && strings.HasSuffix(t, ")") && balanced(t[5:len(t)-1]) {
		return t[5 : len(t)-1]
	}
	return "(not " + t + ")"
}

func balanced(t string) bool {
	d := 0
	inStr := false
	for i := 0; i < len(t); i++ {
		c := t[i]
		if c == '"' {
			inStr = !inStr
		}
		if inStr {
			continue
		}
		if c == '(' {
			d++
		} else if c == ')' {
			d--
			if d < 0 {
				return false
			}
		} else if c == ' ' && d == 0 {
			return false
		}
	}
	return d == 0
}

func implies(a, b string) string {
	if a == "true" {
		return b
	}
	if a == "false" || b == "true" {
		return "true"
	}
	return "(=> " + a + " " + b + ")"
}

func ite(c, a, b string) string {
	if c == "true" {
		return a
	}
	if c == "false" {
		return b
	}
	if a == b {
		return a
	}
	return "(ite " + c + " " + a + " " + b + ")"
}

func eq(a, b string) string {
	if a == b {
		return "true"
	}
	return "(= " + a + " " + b + ")"
}

func sel(arr, idx string) string {
	// select over store with syntactically equal index
	if strings.HasPrefix(arr, "(store ") {
		if a, i, v, ok := splitStore(arr); ok {
			if i == idx {
				return v
			}
			if distinctConsts(i, idx) {
				return sel(a, idx)
			}
		}
	}
	return "(select " + arr + " " + idx + ")"
}

func store(arr, idx, v string) string {
	return "(store " + arr + " " + idx + " " + v + ")"
}

// splitStore parses "(store a i v)".
func splitStore(t string) (a, i, v string, ok bool) {
	parts := splitSexp(t[1 : len(t)-1])
	if len(parts) != 4 || parts[0] != "store" {
		return "", "", "", false
	}
	return parts[1], parts[2], parts[3], true
}

func splitSexp(t string) []string {
	var out []string
	d := 0
	start := -1
	inStr := false
	for i := 0; i < len(t); i++ {
		c := t[i]
		if inStr {
			if c == '"' {
				inStr = false
			}
			continue
		}
		switch c {
		case '"':
			inStr = true
			if start < 0 {
				start = i
			}
		case '(':
			if start < 0 {
				start = i
			}
			d++
		case ')':
			d--
		case ' ', '\n', '\t':
			if d == 0 && start >= 0 {
				out = append(out, t[start:i])
				start = -1
			}
		default:
			if start < 0 {
				start = i
			}
		}
	}
	if start >= 0 {
		out = append(out, t[start:])
	}
	return out
}

// distinctConsts: two different alloc constants or bit-vector literals are known distinct.
func distinctConsts(a, b string) bool {
	if a == b {
		return false
	}
	if strings.HasPrefix(a, "#x") && strings.HasPrefix(b, "#x") {
		return true
	}
	if isAllocRef(a) && isAllocRef(b) {
		return true
	}
	if (isAllocRef(a) && b == "null") || (isAllocRef(b) && a == "null") {
		return true
	}
	return false
}

func constToBig(c constant.Value) *big.Int {
	if c == nil {
		return big.NewInt(0)
	}
	switch c.Kind() {
	case constant.Int:
		if v, ok := constant.Int64Val(c); ok {
			return big.NewInt(v)
		}
		b, _ := new(big.Int).SetString(c.ExactString(), 10)
		return b
	case constant.Float:
		f, _ := constant.Float64Val(c)
		bf := big.NewFloat(f)
		i, _ := bf.Int(nil)
		return i
	}
	return big.NewInt(0)
}

// Objects allocated by the function under verification are the negative integers (literal,
// hence pairwise distinct); everything that existed before has a non-negative reference.
func isAllocRef(t string) bool { return strings.HasPrefix(t, "(- ") && !strings.Contains(t[3:], " ") }
