package main

import "os"

// Replay of refuted obligations against the real code (go test -overlay); drivers are
// registered per obligation-name prefix in replay_drivers.go.

type ReplayResult struct {
	Confirmed bool              `json:"confirmed"`
	Summary   string            `json:"summary"`
	Inputs    map[string]string `json:"inputs,omitempty"`
	Output    string            `json:"output,omitempty"`
	Driver    string            `json:"driver,omitempty"`
	Invocation *ReplayInvocation `json:"invocation,omitempty"` // how to run the replay again (./check --replay)
}

func (r *Report) replay(o *Obligation, sr *SolveResult) ReplayResult {
	if os.Getenv("VERIF_NO_REPLAY") != "" {
		return ReplayResult{Summary: "replay skipped (self-test run)"}
	}
	if sr.Status != "refuted" {
		return ReplayResult{Summary: "no model: every solver answered unknown or timed out (" + sr.Detail + ")"}
	}
	for _, d := range replayDrivers {
		if d.match(o.Name) {
			lastGoReplay = nil
			rr := d.run(r, o, sr)
			rr.Invocation = lastGoReplay
			return rr
		}
	}
	return ReplayResult{Summary: "the solver produced a model but no replay driver is registered for this function; the model is in solver_output"}
}

type replayDriver struct {
	match func(name string) bool
	run   func(r *Report, o *Obligation, sr *SolveResult) ReplayResult
}

var replayDrivers []replayDriver
