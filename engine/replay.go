package main

import "os"

// Replay of refuted obligations against the real code (go test -overlay); drivers are
// registered per obligation-name prefix in replay_drivers.go.

type ReplayResult struct {
	Confirmed bool              `json:"confirmed"`
	Summary   string            `json:"summary"`
	Inputs    map[string]string `json:"inputs,omitempty"`
	Output    string            `json:"output,omitempty"`
	Driver    string            `json:"driver,omitempty"`
	Invocation *ReplayInvocation `json:"invocation,omitempty"` // how to run the replay again (./check --replay)
}

func (r *Report) replay(o *Obligation, sr *SolveResult) ReplayResult {
	if os.Getenv("VERIF_NO_REPLAY") != "" {
		return ReplayResult{Summary: "replay skipped (self-test run)"}
	}
	var first ReplayResult
	if sr.Status != "refuted" {
		first = ReplayResult{Summary: "no model: every solver answered unknown or timed out (" + sr.Detail + ")"}
	} else {
		first = ReplayResult{Summary: "the solver produced a model but no replay driver is registered for this function; the model is in solver_output"}
		for _, d := range replayDrivers {
			if d.match(o.Name) {
				lastGoReplay = nil
				rr := d.run(r, o, sr)
				rr.Invocation = lastGoReplay
				if rr.Confirmed {
					return rr
				}
				first = rr
				break
			}
		}
	}
	// no input confirmed so far: the demonstrations of the seeded corpus recorded against this clause
	lastGoReplay = nil
	if cr, ok := corpusReplay(r, o); ok {
		cr.Invocation = lastGoReplay
		return cr
	} else if cr.Summary != "" {
		first.Summary += " | " + cr.Summary
	}
	return first
}

type replayDriver struct {
	match func(name string) bool
	run   func(r *Report, o *Obligation, sr *SolveResult) ReplayResult
}

var replayDrivers []replayDriver
