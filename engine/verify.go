package main

import (
	"path/filepath"
	"fmt"
	"os"
	"regexp"
	"runtime/debug"
	"go/token"
	"go/types"
	"sort"
	"strings"

	"golang.org/x/tools/go/ssa"
)

func NewEngine(ld *Loader) *Engine {
	eng := &Engine{prog: ld.prog, ld: ld, specs: map[string]*FuncSpec{}, stable: map[string]bool{}, ghostVars: map[string]bool{},
		guarded: map[string]*guardInfo{}, dropped: map[string]int{}, assumes: map[string]bool{}, maxInline: 3, inlineMax: 60}
	eng.opaque = map[string]bool{}
	for path, ps := range ld.pkgSpecs {
		for _, o := range ps.Opaque {
			eng.opaque[o] = true
		}
		for _, fs := range ps.Funcs {
			fs.PkgPath = path
			if fs.Trusted {
				eng.specs[fs.Key] = fs
			} else {
				eng.specs[path+"::"+fs.Key] = fs
			}
		}
	}
	return eng
}

func (e *Exec) addObligation(f *frame, kind string, c *Clause, name, guard, goal string, pos token.Pos) {
	e.addObligationRaw(f, kind, name, c.Label, c.Tags, guard, goal, pos, false)
}

func (e *Exec) addObligationRaw(f *frame, kind, name, label string, tags []string, guard, goal string, pos token.Pos, cover bool) {
	if e.quiet > 0 || e.specDepth > 0 {
		return
	}
	o := &Obligation{Name: e.funcName() + "#" + name, Func: e.funcName(), Kind: kind, Label: label, Tags: tags,
		Pos: e.eng.prog.Fset.Position(pos).String(), Prefix: len(e.s.lines), Guard: guard, Goal: goal, Script: e.s, Cover: cover,
		CallLog: append([]callRec{}, e.callLog...)}
	e.obls = append(e.obls, o)
}

func (e *Exec) funcName() string {
	fn := e.top
	pk := ""
	if fn.Pkg != nil {
		p := fn.Pkg.Pkg.Path()
		pk = p[strings.LastIndex(p, "/")+1:] + "."
	}
	return pk + fn.RelString(fn.Pkg.Pkg)
}

type VerifyResult struct {
	Func     string
	Obls     []*Obligation
	Dropped  []string
	Inlined  []string
	Used     []string
	Havocked map[string]int
	Err      string
}

// Verify generates the obligations of one function under its contract (nil = no contract: requires true).
func (eng *Engine) Verify(fn *ssa.Function, spec *FuncSpec, tags map[string]bool) (res *VerifyResult) {
	e := &Exec{eng: eng, s: newScript(), top: fn, topSpec: spec, compSort: map[string]string{}, callOrd: map[string]int{}, checkTags: tags,
		usedSpecs: map[string]bool{}, inlined: map[string]bool{}, havocked: map[string]int{}, clauseHit: map[*Clause]bool{}}
	res = &VerifyResult{}
	if spec != nil && spec.IntMode == "math" {
		e.s.mathInt = true
	}
	defer func() {
		if r := recover(); r != nil {
			res.Func = e.funcName()
			res.Err = fmt.Sprint(r)
			if os.Getenv("VERIF_DEBUG") != "" {
				fmt.Fprintf(os.Stderr, "%s: %v\n%s\n", res.Func, r, debug.Stack())
			}
		}
	}()
	res.Func = e.funcName()
	if spec != nil && spec.NoPanic {
		if len(tags) == 0 || len(spec.NoPanicT) == 0 {
			e.nopanic = true
		}
		for _, t := range spec.NoPanicT {
			if tags[t] {
				e.nopanic = true
			}
		}
	}
	f := e.newFrame(fn, "")
	f.spec = spec
	f.top = true
	e.topFrame = f
	e.inlineStk = []*ssa.Function{fn}
	var args []Val
	for _, p := range fn.Params {
		v := Val{T: e.s.declConst("p_"+sanitize(p.Name()), e.s.sortOf(p.Type())), Typ: p.Type()}
		e.wf(v)
		if e.s.sortOf(p.Type()) == "Ref" {
			e.s.assert("(>= " + v.T + " 0)")
		} else {
			e.notPrivate(v) // slices and interfaces passed in refer to objects that exist already
		}
		e.wfFields(v, true, 0)
		args = append(args, v)
	}
	for _, fv := range fn.FreeVars {
		f.vals[fv] = Val{T: e.s.declConst("fv_"+sanitize(fv.Name()), e.s.sortOf(fv.Type())), Typ: fv.Type()}
	}
	f.params = args
	h0 := &Heap{m: map[string]string{}}
	e.preHeap = h0
	if spec != nil && spec.Handler != "" {
		// a route handler starts a request: the per-request ghost context is empty (zero values)
		var hp []string
		for path := range eng.ld.pkgSpecs {
			hp = append(hp, path)
		}
		sort.Strings(hp)
		for _, path := range hp {
			sp := eng.ld.ssaPkg(path)
			if sp == nil {
				continue
			}
			var mn []string
			for name := range sp.Members {
				mn = append(mn, name)
			}
			sort.Strings(mn)
			for _, name := range mn {
				m := sp.Members[name]
				g, ok := m.(*ssa.Global)
				if !ok || !eng.ghostVars["G|"+path+"."+name] {
					continue
				}
				comp := e.globalComp(g)
				h0.m[comp] = e.zero(g.Type().(*types.Pointer).Elem())
			}
		}
		eng.assumes["ghost request context is empty when a route handler starts ("+res.Func+")"] = true
	}
	// axioms about package-level variables of the function's own package
	if fn.Pkg != nil {
		if ps := eng.ld.pkgSpecs[fn.Pkg.Pkg.Path()]; ps != nil {
			for _, ax := range ps.Axioms {
				for _, c := range ax.Clauses {
					ax.PkgPath = ps.PkgPath
					e.s.assert(e.evalSpec(eng.ld.specFunc(ax, c), nil, h0, nil))
					eng.assumes["axiom assumed: "+strings.TrimPrefix(c.Text, "() :: ")] = true
				}
			}
		}
	}
	var reqs []string
	if spec != nil {
		for _, c := range spec.Clauses {
			if c.Kind == KRequires {
				t := e.evalSpec(eng.ld.specFunc(spec, c), args, h0, nil)
				e.s.assert(t)
				reqs = append(reqs, t)
			}
		}
	}
	if len(reqs) > 0 {
		e.addObligationRaw(f, "cover", "cover.requires-satisfiable", "", nil, "true", "false", fn.Pos(), true)
	}
	results, hout, gout := e.run(f, args, h0.clone(), "true")
	if spec != nil && gout != "false" {
		full := append(append([]Val{}, args...), results...)
		e.applyGhostSets(spec, full, hout, gout)
		for _, c := range spec.Clauses {
			switch c.Kind {
			case KEnsures:
				txt := strings.TrimSpace(c.Text)
				if strings.HasPrefix(txt, "fresh(") {
					eng.assumes["fresh() postcondition of "+res.Func+" is assumed, not verified"] = true
					continue
				}
				if c.Assumed {
					eng.assumes["assumed (not verified) postcondition of "+res.Func+": "+c.Text] = true
					continue
				}
				if !e.wantClause(c) {
					continue
				}
				pre := h0
				if c.SinceLock != "" {
					pre = e.lockSnapshot(hout, c.SinceLock)
				}
				t := e.evalSpec(eng.ld.specFunc(spec, c), full, hout, pre)
				e.addObligation(f, "ensures", c, labelOr(c, fmt.Sprintf("ensures.L%d", c.Line)), gout, t, fn.Pos())
			case KReturns:
				if !e.wantClause(c) {
					continue
				}
				v := e.evalSpecVal(eng.ld.specFunc(spec, c), args, h0)
				e.addObligation(f, "ensures", c, labelOr(c, fmt.Sprintf("returns.L%d", c.Line)), gout, eq(results[0].T, v.T), fn.Pos())
			case KCover:
				if !e.wantClause(c) {
					continue
				}
				t := e.evalSpec(eng.ld.specFunc(spec, c), full, hout, h0)
				e.addObligationRaw(f, "cover", "cover."+labelOr(c, fmt.Sprintf("L%d", c.Line)), c.Label, c.Tags, gout, not(t), fn.Pos(), true)
			}
		}
	}
	if spec != nil && gout != "false" {
		var obs [][2]string
		full := append(append([]Val{}, args...), results...)
		for _, c := range spec.Clauses {
			if c.Kind == KObserve {
				v := e.evalSpecVal(eng.ld.specFunc(spec, c), full, hout)
				obs = append(obs, [2]string{c.Label, v.T})
			}
		}
		for _, p := range fn.Params {
			switch p.Type().Underlying().(type) {
			case *types.Basic:
				obs = append(obs, [2]string{"param:" + p.Name(), f.vals[p].T})
			}
		}
		n := len(e.s.lines)
		for _, o := range e.obls {
			o.Observe = obs
			o.ObservePrefix = n
		}
	}
	if spec != nil && spec.ModNone && !spec.Trusted && len(fn.Blocks) > 0 {
		// a declared "modifies nothing" is compared with the inferred mod-set of the body (a static
		// over-approximation of its writes): confirmed when that set is empty, otherwise listed as assumed
		ms := eng.modSetOf(fn)
		if ms.all || len(ms.descs) > 0 || len(ms.named) > 0 || ms.hasExpr || ms.boxed || len(ms.ghosts) > 0 {
			var w []string
			for k := range ms.descs {
				w = append(w, k)
			}
			sort.Strings(w)
			if len(w) > 4 {
				w = append(w[:4], "...")
			}
			eng.assumes[fmt.Sprintf("declared frame 'modifies nothing' of %s is assumed: the inferred mod-set of its body is not empty (%s)", res.Func, strings.Join(w, ", "))] = true
		} else {
			eng.assumes[fmt.Sprintf("declared frame 'modifies nothing' of %s is confirmed by the inferred mod-set of its body (empty)", res.Func)] = true
		}
	}
	if spec != nil {
		for _, c := range spec.Clauses {
			if c.Kind == KAtCallSet && !e.clauseHit[c] {
				// a ghost assignment whose call is gone: the clauses that rely on the assignment fail on their
				// own, so this is noted, not fatal (a removed call must surface as a violation, not as BROKEN)
				e.eng.assumes[fmt.Sprintf("note: ghost assignment at calls of %s in %s (%s:%d) found no such call", c.Callee, res.Func, filepath.Base(c.File), c.Line)] = true
				continue
				panic(fmt.Sprintf("%s:%d: call-site clause for %q never applied: no such call in %s (contract out of date?)", c.File, c.Line, c.Callee, res.Func))
			}
			if c.Kind == KExhaustive && !e.clauseHit[c] && e.wantClause(c) {
				e.obls = append(e.obls, &Obligation{Name: res.Func + "#" + c.Label + ".loop-missing", Func: res.Func, Kind: "structural", Label: c.Label, Tags: c.Tags,
					Pos: fmt.Sprintf("%s:%d", c.File, c.Line), Structural: true, StructOK: false, Guard: "true",
					Goal:      fmt.Sprintf("loop %d exists in %s (the clause constrains it)", c.Loop, res.Func),
					StructMsg: fmt.Sprintf("%s has no loop %d any more: the iteration this clause constrains was removed", res.Func, c.Loop)})
			}
			if c.Kind == KAssertCall && !e.clauseHit[c] && e.wantClause(c) {
				if strings.HasSuffix(strings.TrimSpace(c.Text), ":: false") {
					continue // a prohibition ("no such call may exist here"): satisfied when there is none
				}
				if c.Overrides != "" || c.Label == "" {
					panic(fmt.Sprintf("%s:%d: call-site clause for %q never applied: no such call in %s (contract out of date?)", c.File, c.Line, c.Callee, res.Func))
				}
				// a labelled demand on a call that no longer exists: the call the property relies on was removed
				// (WriteFile with mode 0600 replaced by os.Create, ...). A named obligation that fails, not an
				// engine error.
				e.obls = append(e.obls, &Obligation{Name: res.Func + "#" + c.Label + ".call-missing", Func: res.Func, Kind: "structural", Label: c.Label, Tags: c.Tags,
					Pos: fmt.Sprintf("%s:%d", c.File, c.Line), Structural: true, StructOK: false, Guard: "true",
					Goal:      "a call of " + c.Callee + " exists in " + res.Func + " (the clause constrains it)",
					StructMsg: "no call of " + c.Callee + " is left in " + res.Func + ": the call this clause constrains was removed"})
			}
		}
	}
	res.Obls = e.obls
	for k := range e.inlined {
		res.Inlined = append(res.Inlined, k)
	}
	for k := range e.usedSpecs {
		res.Used = append(res.Used, k)
	}
	sort.Strings(res.Inlined)
	sort.Strings(res.Used)
	res.Havocked = e.havocked
	return res
}

// Text renders the SMT-LIB script of an obligation: the prefix of the function's script up to the
// obligation, sliced to the cone of influence of guard and goal (dropping an assumption that shares
// no symbol, transitively, with the goal can only make the obligation harder to discharge).
func (o *Obligation) Text(solver string) string {
	var b strings.Builder
	if solver == "cvc5" {
		b.WriteString("(set-option :produce-models true)\n(set-logic ALL)\n")
	} else {
		b.WriteString("(set-option :produce-models true)\n")
	}
	b.WriteString(o.Script.preamble())
	decls, lines := o.Script.slice(o.Prefix, o.Guard+" "+o.Goal)
	if len(o.Observe) > 0 {
		seed := o.Guard + " " + o.Goal
		for _, ob := range o.Observe {
			seed += " " + ob[1]
		}
		decls, _ = o.Script.slice(o.ObservePrefix, seed)
	}
	body := strings.Join(decls, "\n") + "\n" + strings.Join(lines, "\n") + "\n"
	g, goal := o.Guard, not(o.Goal)
	fix := func(t string) string {
		if solver == "z3old" {
			t = strings.ReplaceAll(t, "(bv2nat ", "(bv2int ")
		}
		t = nullRe.ReplaceAllString(t, "${1}0${2}")
		return nullRe.ReplaceAllString(t, "${1}0${2}")
	}
	b.WriteString(fix(body))
	if o.consistencyOnly {
		// vacuity guard: the assumptions of this obligation alone (no path guard, no goal) must be satisfiable
		if o.reachOnly && g != "true" {
			// reachability variant: the path to the obligation must be feasible under the assumptions
			b.WriteString("(assert " + fix(g) + ")\n")
		}
		b.WriteString("(check-sat)\n")
		return b.String()
	}
	for _, l := range stringLemmas(body + g + " " + goal) {
		b.WriteString(l + "\n")
	}
	for _, l := range regexInclusionLemmas(fix(body) + g + " " + goal) {
		b.WriteString(l + "\n")
	}
	if g != "true" {
		b.WriteString("(assert " + fix(g) + ")\n")
	}
	b.WriteString("(assert " + fix(goal) + ")\n")
	b.WriteString("(check-sat)\n(get-model)\n")
	if len(o.Observe) > 0 {
		// definitions the observed terms need (they follow the obligation in program order)
		var terms []string
		for _, ob := range o.Observe {
			terms = append(terms, fix(ob[1]))
		}
		_, extra := o.Script.slice(o.ObservePrefix, strings.Join(terms, " "))
		have := map[string]bool{}
		for _, l := range lines {
			have[l] = true
		}
		for _, l := range extra {
			if strings.HasPrefix(l, "(define-fun ") && !have[l] {
				b.WriteString(fix(l) + "\n")
			}
		}
		b.WriteString("(echo \"OBSERVE\")\n(get-value (" + strings.Join(terms, " ") + "))\n")
	}
	return b.String()
}

var symRe = regexp.MustCompile(`[A-Za-z_][A-Za-z0-9_]*`)

type lineInfo struct {
	def     string   // name defined (define-fun) or ""
	syms    []string // declared or defined names mentioned directly
	trigger []string // assertions: declared names reachable from the consequent (through definitions)
}

// index tokenizes the script once (called before solving, single-threaded).
func (s *Script) index() {
	if s.lineInfo != nil && len(s.lineInfo) == len(s.lines) {
		return
	}
	s.declName = make([]string, len(s.decls))
	known := map[string]bool{}
	for i, d := range s.decls {
		if strings.HasPrefix(d, "(declare-const ") || strings.HasPrefix(d, "(declare-fun ") {
			f := strings.Fields(d)
			s.declName[i] = f[1]
			known[f[1]] = true
		}
	}
	for i, d := range s.decls {
		if strings.HasPrefix(d, "(assert ") {
			// an axiom about a declared symbol: kept exactly when that symbol is kept
			for _, x := range symRe.FindAllString(stripStrings(d), -1) {
				if known[x] {
					s.declName[i] = x
					break
				}
			}
		}
	}
	isDef := map[string]bool{}
	for _, l := range s.lines {
		if strings.HasPrefix(l, "(define-fun ") {
			n := strings.Fields(l)[1]
			known[n] = true
			isDef[n] = true
		}
	}
	closure := map[string]map[string]bool{} // def -> declared names reachable
	direct := func(t string, skip string) []string {
		var out []string
		seen := map[string]bool{}
		for _, x := range symRe.FindAllString(stripStrings(t), -1) {
			if known[x] && !seen[x] && x != skip {
				seen[x] = true
				out = append(out, x)
			}
		}
		return out
	}
	expand := func(syms []string) map[string]bool {
		out := map[string]bool{}
		for _, x := range syms {
			if isDef[x] {
				for y := range closure[x] {
					out[y] = true
				}
			} else {
				out[x] = true
			}
		}
		return out
	}
	s.lineInfo = make([]lineInfo, len(s.lines))
	for i, l := range s.lines {
		li := lineInfo{}
		if strings.HasPrefix(l, "(define-fun ") {
			li.def = strings.Fields(l)[1]
			li.syms = direct(l[len("(define-fun ")+len(li.def):], li.def)
			closure[li.def] = expand(li.syms)
		} else {
			li.syms = direct(l, "")
			cons := l
			// (assert (=> G X)): relevance is decided by X alone
			if strings.HasPrefix(l, "(assert (=> ") {
				parts := splitSexp(l[len("(assert (=> ") : len(l)-2])
				if len(parts) == 2 {
					cons = parts[1]
				}
			}
			for y := range expand(direct(cons, "")) {
				li.trigger = append(li.trigger, y)
			}
		}
		s.lineInfo[i] = li
	}
	s.known = known
	s.isDef = isDef
	s.closure = closure
}

func stripStrings(t string) string {
	if !strings.Contains(t, "\"") {
		return t
	}
	var b strings.Builder
	in := false
	for i := 0; i < len(t); i++ {
		if t[i] == '"' {
			in = !in
			continue
		}
		if !in {
			b.WriteByte(t[i])
		}
	}
	return b.String()
}

func (s *Script) slice(prefix int, seed string) (decls, lines []string) {
	if s.lineInfo == nil || len(s.lineInfo) < prefix || os.Getenv("VERIF_NOSLICE") != "" {
		return s.decls, s.lines[:prefix]
	}
	need := map[string]bool{}
	addNeed := func(t string) bool {
		ch := false
		if !need[t] {
			need[t] = true
			ch = true
		}
		if s.isDef[t] {
			for y := range s.closure[t] {
				if !need[y] {
					need[y] = true
					ch = true
				}
			}
		}
		return ch
	}
	for _, t := range symRe.FindAllString(stripStrings(seed), -1) {
		if s.known[t] {
			addNeed(t)
		}
	}
	inc := make([]bool, prefix)
	for changed := true; changed; {
		changed = false
		for i := prefix - 1; i >= 0; i-- {
			if inc[i] {
				continue
			}
			li := &s.lineInfo[i]
			take := false
			if li.def != "" {
				take = need[li.def]
			} else {
				for _, t := range li.trigger {
					if need[t] {
						take = true
						break
					}
				}
			}
			if take {
				inc[i] = true
				for _, t := range li.syms {
					if addNeed(t) {
						changed = true
					}
				}
			}
		}
	}
	// datatype declarations: only those mentioned (transitively) by what is kept
	var kept []string
	for i, d := range s.decls {
		if s.declName[i] != "" && need[s.declName[i]] {
			kept = append(kept, d)
		}
	}
	for i := 0; i < prefix; i++ {
		if inc[i] {
			kept = append(kept, s.lines[i])
		}
	}
	text := strings.Join(kept, "\n") + "\n" + seed
	dtNeeded := map[int]bool{}
	for changed := true; changed; {
		changed = false
		for i, d := range s.decls {
			if dtNeeded[i] || !strings.HasPrefix(d, "(declare-datatypes ((") {
				continue
			}
			name := d[len("(declare-datatypes (("):]
			name = name[:strings.IndexByte(name, ' ')]
			if strings.Contains(text, name) {
				dtNeeded[i] = true
				text += "\n" + d
				changed = true
			}
		}
	}
	for i, d := range s.decls {
		switch {
		case strings.HasPrefix(d, "(declare-datatypes (("):
			if dtNeeded[i] {
				decls = append(decls, d)
			}
		case s.declName[i] == "" || need[s.declName[i]]:
			decls = append(decls, d)
		}
	}
	for i := 0; i < prefix; i++ {
		if inc[i] {
			lines = append(lines, s.lines[i])
		}
	}
	return
}

// callsTo reports whether fn contains a static call (directly or through closures) to one of keys.
func (eng *Engine) callsAny(fn *ssa.Function, want func(*FuncSpec) bool) bool {
	for _, b := range fn.Blocks {
		for _, in := range b.Instrs {
			var cc *ssa.CallCommon
			switch x := in.(type) {
			case *ssa.Call:
				cc = &x.Call
			case *ssa.Defer:
				cc = &x.Call
			case *ssa.Go:
				cc = &x.Call
			}
			if cc == nil {
				continue
			}
			if cc.IsInvoke() {
				key := "(" + typeKey(cc.Value.Type()) + ")." + cc.Method.Name()
				if sp, ok := eng.specs[key]; ok && want(sp) {
					return true
				}
				continue
			}
			if callee, ok := cc.Value.(*ssa.Function); ok {
				if sp := eng.specForFn(callee); sp != nil && want(sp) {
					return true
				}
			}
		}
	}
	return false
}

func specHasTag(sp *FuncSpec, tag string, kinds ...ClauseKind) bool {
	for _, c := range sp.Clauses {
		for _, k := range kinds {
			if c.Kind == k && c.HasTag(tag) {
				return true
			}
		}
	}
	return false
}

var _ = types.Typ

var nullRe = regexp.MustCompile(`([ (])null([ )])`)

type valInv struct {
	fs *FuncSpec
	c  *Clause
}

// valInvs: invariants declared for values of struct type t held in maps.
func (eng *Engine) valInvs(t types.Type) []valInv {
	n, ok := t.(*types.Named)
	if !ok || n.Obj().Pkg() == nil {
		return nil
	}
	fs := eng.specs[n.Obj().Pkg().Path()+"::valinv:"+n.Obj().Name()]
	if fs == nil {
		return nil
	}
	var out []valInv
	for _, c := range fs.Clauses {
		if c.Kind == KValInv {
			out = append(out, valInv{fs, c})
		}
	}
	return out
}

// convInvs: conversion-site obligations the package of fn declares for the named type t.
func (eng *Engine) convInvs(fn *ssa.Function, t types.Type) []valInv {
	n, ok := t.(*types.Named)
	if !ok || n.Obj().Pkg() == nil {
		return nil
	}
	root := fn
	for root.Parent() != nil {
		root = root.Parent()
	}
	if root.Pkg == nil {
		return nil
	}
	fs := eng.specs[root.Pkg.Pkg.Path()+"::convinv:"+n.Obj().Pkg().Path()+"."+n.Obj().Name()]
	if fs == nil {
		return nil
	}
	var out []valInv
	for _, c := range fs.Clauses {
		out = append(out, valInv{fs, c})
	}
	return out
}

// convertsTagged: fn (or a closure in it) converts a non-constant value to a type with a tagged convinv rule.
func (eng *Engine) convertsTagged(fn *ssa.Function, tag string) bool {
	for _, b := range fn.Blocks {
		for _, in := range b.Instrs {
			var from ssa.Value
			var to types.Type
			switch x := in.(type) {
			case *ssa.ChangeType:
				from, to = x.X, x.Type()
			case *ssa.Convert:
				from, to = x.X, x.Type()
			default:
				continue
			}
			if _, isConst := from.(*ssa.Const); isConst {
				continue
			}
			for _, ci := range eng.convInvs(fn, to) {
				if ci.c.HasTag(tag) {
					return true
				}
			}
		}
	}
	for _, a := range fn.AnonFuncs {
		if eng.convertsTagged(a, tag) {
			return true
		}
	}
	return false
}
