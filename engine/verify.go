package main

import (
	"fmt"
	"go/token"
	"go/types"
	"sort"
	"strings"

	"golang.org/x/tools/go/ssa"
)

func NewEngine(ld *Loader) *Engine {
	eng := &Engine{prog: ld.prog, ld: ld, specs: map[string]*FuncSpec{}, stable: map[string]bool{}, ghostVars: map[string]bool{},
		guarded: map[string]string{}, dropped: map[string]int{}, assumes: map[string]bool{}, maxInline: 6}
	for path, ps := range ld.pkgSpecs {
		for _, fs := range ps.Funcs {
			fs.PkgPath = path
			if fs.Trusted {
				eng.specs[fs.Key] = fs
			} else {
				eng.specs[path+"::"+fs.Key] = fs
			}
		}
	}
	return eng
}

func (e *Exec) addObligation(f *frame, kind string, c *Clause, name, guard, goal string, pos token.Pos) {
	e.addObligationRaw(f, kind, name, c.Label, c.Tags, guard, goal, pos, false)
}

func (e *Exec) addObligationRaw(f *frame, kind, name, label string, tags []string, guard, goal string, pos token.Pos, cover bool) {
	if e.quiet > 0 || e.specDepth > 0 {
		return
	}
	o := &Obligation{Name: e.funcName() + "#" + name, Func: e.funcName(), Kind: kind, Label: label, Tags: tags,
		Pos: e.eng.prog.Fset.Position(pos).String(), Prefix: len(e.s.lines), Guard: guard, Goal: goal, Script: e.s, Cover: cover,
		CallLog: append([]callRec{}, e.callLog...)}
	e.obls = append(e.obls, o)
}

func (e *Exec) funcName() string {
	fn := e.top
	pk := ""
	if fn.Pkg != nil {
		p := fn.Pkg.Pkg.Path()
		pk = p[strings.LastIndex(p, "/")+1:] + "."
	}
	return pk + fn.RelString(fn.Pkg.Pkg)
}

type VerifyResult struct {
	Func     string
	Obls     []*Obligation
	Dropped  []string
	Inlined  []string
	Used     []string
	Havocked map[string]int
	Err      string
}

// Verify generates the obligations of one function under its contract (nil = no contract: requires true).
func (eng *Engine) Verify(fn *ssa.Function, spec *FuncSpec, tags map[string]bool) (res *VerifyResult) {
	e := &Exec{eng: eng, s: newScript(), top: fn, topSpec: spec, compSort: map[string]string{}, callOrd: map[string]int{}, checkTags: tags,
		usedSpecs: map[string]bool{}, inlined: map[string]bool{}, havocked: map[string]int{}}
	res = &VerifyResult{}
	if spec != nil && spec.IntMode == "math" {
		e.s.mathInt = true
	}
	defer func() {
		if r := recover(); r != nil {
			res.Func = e.funcName()
			res.Err = fmt.Sprint(r)
		}
	}()
	res.Func = e.funcName()
	if spec != nil && spec.NoPanic {
		if len(tags) == 0 || len(spec.NoPanicT) == 0 {
			e.nopanic = true
		}
		for _, t := range spec.NoPanicT {
			if tags[t] {
				e.nopanic = true
			}
		}
	}
	f := e.newFrame(fn, "")
	f.spec = spec
	f.top = true
	e.topFrame = f
	e.inlineStk = []*ssa.Function{fn}
	var args []Val
	for _, p := range fn.Params {
		v := Val{T: e.s.declConst("p_"+sanitize(p.Name()), e.s.sortOf(p.Type())), Typ: p.Type()}
		e.wf(v)
		args = append(args, v)
	}
	for _, fv := range fn.FreeVars {
		f.vals[fv] = Val{T: e.s.declConst("fv_"+sanitize(fv.Name()), e.s.sortOf(fv.Type())), Typ: fv.Type()}
	}
	f.params = args
	h0 := &Heap{m: map[string]string{}}
	e.preHeap = h0
	var reqs []string
	if spec != nil {
		for _, c := range spec.Clauses {
			if c.Kind == KRequires {
				t := e.evalSpec(eng.ld.specFunc(spec, c), args, h0, nil)
				e.s.assert(t)
				reqs = append(reqs, t)
			}
		}
	}
	if len(reqs) > 0 {
		e.addObligationRaw(f, "cover", "cover.requires-satisfiable", "", nil, "true", "false", fn.Pos(), true)
	}
	results, hout, gout := e.run(f, args, h0.clone(), "true")
	if spec != nil && gout != "false" {
		full := append(append([]Val{}, args...), results...)
		for _, c := range spec.Clauses {
			switch c.Kind {
			case KEnsures:
				txt := strings.TrimSpace(c.Text)
				if strings.HasPrefix(txt, "fresh(") {
					eng.assumes["fresh() postcondition of "+res.Func+" is assumed, not verified"] = true
					continue
				}
				if !e.wantClause(c) {
					continue
				}
				t := e.evalSpec(eng.ld.specFunc(spec, c), full, hout, h0)
				e.addObligation(f, "ensures", c, labelOr(c, fmt.Sprintf("ensures.L%d", c.Line)), gout, t, fn.Pos())
			case KCover:
				if !e.wantClause(c) {
					continue
				}
				t := e.evalSpec(eng.ld.specFunc(spec, c), full, hout, h0)
				e.addObligationRaw(f, "cover", "cover."+labelOr(c, fmt.Sprintf("L%d", c.Line)), c.Label, c.Tags, gout, not(t), fn.Pos(), true)
			}
		}
	}
	res.Obls = e.obls
	for k := range e.inlined {
		res.Inlined = append(res.Inlined, k)
	}
	for k := range e.usedSpecs {
		res.Used = append(res.Used, k)
	}
	sort.Strings(res.Inlined)
	sort.Strings(res.Used)
	res.Havocked = e.havocked
	return res
}

// Text renders the SMT-LIB script of an obligation.
func (o *Obligation) Text(solver string) string {
	var b strings.Builder
	if solver == "cvc5" {
		b.WriteString("(set-option :produce-models true)\n(set-logic ALL)\n")
	} else {
		b.WriteString("(set-option :produce-models true)\n")
	}
	b.WriteString(o.Script.preamble())
	body := strings.Join(o.Script.decls, "\n") + "\n" + strings.Join(o.Script.lines[:o.Prefix], "\n") + "\n"
	if solver == "z3old" {
		body = strings.ReplaceAll(body, "(bv2nat ", "(bv2int ")
	}
	b.WriteString(body)
	g, goal := o.Guard, o.Goal
	if solver == "z3old" {
		g = strings.ReplaceAll(g, "(bv2nat ", "(bv2int ")
		goal = strings.ReplaceAll(goal, "(bv2nat ", "(bv2int ")
	}
	if g != "true" {
		b.WriteString("(assert " + g + ")\n")
	}
	b.WriteString("(assert " + not(goal) + ")\n")
	b.WriteString("(check-sat)\n(get-model)\n")
	return b.String()
}

// callsTo reports whether fn contains a static call (directly or through closures) to one of keys.
func (eng *Engine) callsAny(fn *ssa.Function, want func(*FuncSpec) bool) bool {
	for _, b := range fn.Blocks {
		for _, in := range b.Instrs {
			var cc *ssa.CallCommon
			switch x := in.(type) {
			case *ssa.Call:
				cc = &x.Call
			case *ssa.Defer:
				cc = &x.Call
			case *ssa.Go:
				cc = &x.Call
			}
			if cc == nil {
				continue
			}
			if cc.IsInvoke() {
				key := "(" + typeKey(cc.Value.Type()) + ")." + cc.Method.Name()
				if sp, ok := eng.specs[key]; ok && want(sp) {
					return true
				}
				continue
			}
			if callee, ok := cc.Value.(*ssa.Function); ok {
				if sp := eng.specForFn(callee); sp != nil && want(sp) {
					return true
				}
			}
		}
	}
	return false
}

func specHasTag(sp *FuncSpec, tag string, kinds ...ClauseKind) bool {
	for _, c := range sp.Clauses {
		for _, k := range kinds {
			if c.Kind == k && c.HasTag(tag) {
				return true
			}
		}
	}
	return false
}

var _ = types.Typ
