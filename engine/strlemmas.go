package main

import (
	"regexp"
	"sort"
	"strings"
)

// Ground string-theory lemmas. The solvers do not derive, inside a goal that also carries quantified
// loop invariants, facts such as  contains(s, "/\\") => contains(s, "\\").  For every top-level string
// constant s that occurs as the subject of str.contains / str.prefixof / str.suffixof with literal
// needles, the valid instances relating those literals are added:
//   a substring of b:  contains(s,b) => contains(s,a);  prefixof(b,s) => contains(s,a);  suffixof(b,s) => contains(s,a)
//   a prefix of b:     prefixof(b,s) => prefixof(a,s)
//   a suffix of b:     suffixof(b,s) => suffixof(a,s)
// Each is a theorem of the theory of strings (an instance of transitivity of the substring order), so
// adding them assumes nothing.
var (
	strContainsRe = regexp.MustCompile(`\(str\.contains ([A-Za-z_][A-Za-z0-9_.|]*) ("(?:[^"]|"")*")\)`)
	strPrefixRe   = regexp.MustCompile(`\(str\.(prefixof|suffixof) ("(?:[^"]|"")*") ([A-Za-z_][A-Za-z0-9_.|]*)\)`)
	declNameRe    = regexp.MustCompile(`(?m)^\((?:declare-fun|declare-const|define-fun) ([A-Za-z_][A-Za-z0-9_.|]*) `)
)

func stringLemmas(text string) []string {
	declared := map[string]bool{}
	for _, m := range declNameRe.FindAllStringSubmatch(text, -1) {
		declared[m[1]] = true
	}
	type use struct{ kind, lit string }
	uses := map[string]map[use]bool{}
	add := func(subj, kind, lit string) {
		if !declared[subj] || lit == `""` {
			return
		}
		if uses[subj] == nil {
			uses[subj] = map[use]bool{}
		}
		uses[subj][use{kind, lit}] = true
	}
	for _, m := range strContainsRe.FindAllStringSubmatch(text, -1) {
		add(m[1], "contains", m[2])
	}
	for _, m := range strPrefixRe.FindAllStringSubmatch(text, -1) {
		add(m[3], m[1], m[2])
	}
	var out []string
	subjs := make([]string, 0, len(uses))
	for s := range uses {
		subjs = append(subjs, s)
	}
	sort.Strings(subjs)
	term := func(u use, s string) string {
		if u.kind == "contains" {
			return "(str.contains " + s + " " + u.lit + ")"
		}
		return "(str." + u.kind + " " + u.lit + " " + s + ")"
	}
	for _, s := range subjs {
		var us []use
		for u := range uses[s] {
			us = append(us, u)
		}
		sort.Slice(us, func(i, j int) bool {
			if us[i].lit != us[j].lit {
				return us[i].lit < us[j].lit
			}
			return us[i].kind < us[j].kind
		})
		for _, big := range us {
			for _, small := range us {
				if big == small {
					continue
				}
				// literals are compared in their SMT-LIB spelling (escapes are written the same way
				// everywhere by smtStringLit), without the quotes
				b, a := big.lit[1:len(big.lit)-1], small.lit[1:len(small.lit)-1]
				if len(a) > len(b) || (len(a) == len(b) && big.kind == small.kind) {
					continue
				}
				ok := false
				switch small.kind {
				case "contains":
					ok = smtLitContains(b, a)
				case "prefixof":
					ok = big.kind == "prefixof" && smtLitHasPrefix(b, a)
				case "suffixof":
					ok = big.kind == "suffixof" && smtLitHasSuffix(b, a)
				}
				if ok {
					out = append(out, "(assert (=> "+term(big, s)+" "+term(small, s)+"))")
				}
			}
		}
	}
	return out
}

// The literals are sequences of units: a plain character or a \u{..} escape. Substring tests must respect
// unit boundaries.
func smtLitUnits(s string) []string {
	var us []string
	for i := 0; i < len(s); {
		if strings.HasPrefix(s[i:], `\u{`) {
			if j := strings.IndexByte(s[i:], '}'); j > 0 {
				us = append(us, strings.ToLower(s[i:i+j+1]))
				i += j + 1
				continue
			}
		}
		if strings.HasPrefix(s[i:], `""`) {
			us = append(us, `""`)
			i += 2
			continue
		}
		us = append(us, s[i:i+1])
		i++
	}
	return us
}

func unitsEqual(a, b []string) bool {
	if len(a) != len(b) {
		return false
	}
	for i := range a {
		if a[i] != b[i] {
			return false
		}
	}
	return true
}

func smtLitContains(b, a string) bool {
	bu, au := smtLitUnits(b), smtLitUnits(a)
	for i := 0; i+len(au) <= len(bu); i++ {
		if unitsEqual(bu[i:i+len(au)], au) {
			return true
		}
	}
	return false
}

func smtLitHasPrefix(b, a string) bool {
	bu, au := smtLitUnits(b), smtLitUnits(a)
	return len(au) <= len(bu) && unitsEqual(bu[:len(au)], au)
}

func smtLitHasSuffix(b, a string) bool {
	bu, au := smtLitUnits(b), smtLitUnits(a)
	return len(au) <= len(bu) && unitsEqual(bu[len(bu)-len(au):], au)
}
