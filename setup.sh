#!/bin/bash
# Builds the verification engine offline (go1.26.8 + golang.org/x/tools v0.50.0 from the module cache).
set -e
cd "$(dirname "$0")"
export PATH=/opt/veriftools/go1.26.8/bin:$PATH GOTOOLCHAIN=local GOFLAGS=-mod=mod GOPROXY=off GOSUMDB=off
mkdir -p bin evidence replays
(cd engine && go build -o ../bin/engine .)
echo "engine built: $(ls -la bin/engine | awk '{print $5}') bytes"
